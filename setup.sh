#!/bin/bash
# setup_cmd: build what the checks need from files on disk only (offline).
set -e
HERE="$(cd "$(dirname "$0")" && pwd)"
if [ ! -d "$HERE/.deps/z3" ]; then
  PIP_NO_INDEX=1 /venv/bin/python -m pip install --quiet --no-index --find-links /opt/veriftools/wheels \
      --target "$HERE/.deps" z3-solver
fi
PYTHONPATH="$HERE/.deps" /venv/bin/python -c "import z3; print('z3', z3.get_version_string())"
# the lemma library behind the SMT encodings (DESIGN.md 3.1): machine-checked when Lean + Mathlib are present
if command -v lean >/dev/null 2>&1; then
  SHA=$(sha256sum "$HERE/lean/HolopyLemmas.lean" | cut -c1-16)
  if (cd "$HERE/lean" && timeout 1500 lean HolopyLemmas.lean >"$HERE/lean/build.log" 2>&1) && ! grep -q "error" "$HERE/lean/build.log"; then
    echo "checked $SHA $(lean --version | head -1)" > "$HERE/lean/STATUS"
  else
    echo "FAILED $SHA (see lean/build.log)" > "$HERE/lean/STATUS"
  fi
else
  echo "not-checked (lean not installed)" > "$HERE/lean/STATUS"
fi
cat "$HERE/lean/STATUS"
