#!/bin/bash
# setup_cmd: build what the checks need from files on disk only (offline).
set -e
HERE="$(cd "$(dirname "$0")" && pwd)"
if [ ! -d "$HERE/.deps/z3" ]; then
  PIP_NO_INDEX=1 /venv/bin/python -m pip install --quiet --no-index --find-links /opt/veriftools/wheels \
      --target "$HERE/.deps" z3-solver
fi
PYTHONPATH="$HERE/.deps" /venv/bin/python -c "import z3; print('z3', z3.get_version_string())"
