"""`/verif/check <ID> --tier quick|thorough`, `--replay <file>`: run the contracts of
one property against /repo's working tree, write evidence, print the verdict.

exit 0  every obligation discharged (known findings reported as KNOWN-FINDING)
exit 1  VIOLATION property=<id> replay=<path>
exit 2  undecided (solver unknown / construct outside the subset / census)
exit 3  the checker itself is broken (crash, canary proved, vacuous contract)
"""
import argparse
import hashlib
import importlib
import json
import multiprocessing as mp
import os
import re
import sys
import time
import traceback

VERIF = os.path.dirname(os.path.dirname(os.path.abspath(__file__)))
REPO = os.environ.get('VERIF_REPO', '/repo')
OUT = os.environ.get('VERIF_OUT', VERIF)   # the self-test redirects evidence/replays of scratch runs

GENERIC_ASSUMPTIONS = [
    "pyvc (the symbolic executor and its numpy shim) is trusted; guarded by canaries, the vacuity check, the CPython "
    "cross-check and the seeded-fault self-test, not proved",
    "IEEE-754 doubles are treated as mathematical reals and int64 as unbounded integers; properties are proved as exact "
    "identities over R / Z",
    "division is z3's total division; contracts state non-zero divisors as preconditions",
    "numpy functions that are not overridden by pyvc/shim.py are the installed numpy acting on object-dtype arrays; "
    "elementwise numpy functions act independently per element (a generic element stands for every element)",
    "sqrt / sin / cos / arctan2 / floor are axiomatised by the lemma schemas L-SQRT, L-TRIG, L-ATAN2 "
    "(lean/HolopyLemmas.lean); exp / log are uninterpreted with the L-EXP / L-LOG instances listed per obligation",
    "z3 5.1 (and cvc5 1.0.3 where used) are sound",
]


def _load_json(path, default):
    try:
        with open(path) as f:
            return json.load(f)
    except FileNotFoundError:
        return default


def _worker(args):
    prop, cname, tier, seed, n_cross = args
    from pyvc import contract as C
    importlib.import_module('contracts.' + prop)
    cdef = [c for c in C.REGISTRY[prop] if c.name == cname][0]
    # native pre-check: a clause that already fails on a sampled native run is a violation with its input; the expensive solver
    # stages are then skipped for that clause (a broken tree is reported in seconds instead of after every solver budget)
    pre = None
    if not cdef.no_crosscheck and not cdef.native_only:
        try:
            pre = C.crosscheck(cdef, min(n_cross, 25), seed)
        except Exception:
            pre = None
    refuted = {f['clause']: f for f in (pre or {}).get('failures', [])}
    try:
        res = C.verify_contract(cdef, tier, seed, refuted=refuted)
    except Exception:
        return {'contract': cdef.ident, 'name': cname, 'crash': traceback.format_exc(), 'obligations': {},
                'undecided': [], 'paths': 0, 'vcs': 0, 'solver_s': 0.0, 'targets': cdef.targets,
                'source_hashes': {}, 'samples': [], 'bounded': cdef.bounded, 'wall_s': 0.0}
    if not cdef.no_crosscheck and not cdef.native_only and 'crash' not in res:
        try:
            res['crosscheck'] = pre if (pre is not None and (n_cross <= 25 or pre['failures'])) else C.crosscheck(cdef, n_cross, seed)
        except Exception:
            res['crosscheck'] = {'runs': 0, 'rejected': 0, 'clause_evals': 0, 'failures': [],
                                 'error': traceback.format_exc()[-800:]}
    return res


def _san(s):
    return re.sub(r'[^A-Za-z0-9_.-]+', '_', s)


def finding_matches(f, prop, obligation, replay):
    if f.get('property') != prop or f.get('status', 'open') != 'open':
        return False
    if f.get('obligation') != obligation:
        return False
    cond = f.get('input_class')
    if not cond:
        return True
    # input_class: {"input": name, "is": "inf"} style predicates evaluated on the replay inputs
    vals = (replay or {}).get('inputs') or (replay or {}).get('model') or {}
    try:
        return bool(eval(cond, {'__builtins__': {}}, {'inputs': vals, 'abs': abs, 'inf': float('inf')}))
    except Exception:
        return False


def run_property(prop, tier, seed, only=None, jobs=None):
    t0 = time.time()
    sys.path[:0] = [p for p in (os.path.join(VERIF, '.deps'), REPO, VERIF) if p not in sys.path]
    from pyvc import contract as C
    mod = importlib.import_module('contracts.' + prop)
    meta = getattr(mod, 'META', {})
    cdefs = [c for c in C.REGISTRY.get(prop, []) if (not only or only in c.name)
             and (tier == 'thorough' or c.tier == 'quick')]
    n_cross = int(os.environ.get('VERIF_CROSS', '25' if tier == 'quick' else '400'))
    tasks = [(prop, c.name, tier, seed, n_cross) for c in cdefs]
    jobs = jobs or min(16, max(1, len(tasks)))
    if jobs > 1:
        ctx = mp.get_context('fork')
        with ctx.Pool(jobs, maxtasksperchild=1) as pool:
            results = pool.map(_worker, tasks, chunksize=1)
    else:
        results = [_worker(t) for t in tasks]
    return meta, results, time.time() - t0


def summarize(prop, tier, seed, meta, results, wall, quiet=False, census=True):
    known = _load_json(os.path.join(VERIF, 'known_findings.json'), {'findings': []})['findings']
    baseline = _load_json(os.path.join(VERIF, 'baseline_obligations.json'), {}).get(prop, None)
    if baseline is not None and ('quick' in baseline or 'thorough' in baseline):
        baseline = baseline.get(tier)            # one census per tier (the thorough tier has contracts of its own)
    os.makedirs(os.path.join(OUT, 'replays'), exist_ok=True)
    os.makedirs(os.path.join(OUT, 'evidence'), exist_ok=True)

    lines = []
    violations, known_hits, undecided, broken = [], [], [], []
    n_obl = n_dis = n_bounded = n_bounded_ok = n_canary = 0
    backends, functions, samples, bounded_list = {}, {}, [], []
    solver_s = 0.0
    n_paths = n_vcs = cross_runs = cross_evals = 0
    all_names = []
    for r in results:
        if 'crash' in r:
            broken.append("%s crashed: %s" % (r['contract'], r['crash'][-600:]))
            continue
        n_paths += r['paths']
        n_vcs += r['vcs']
        solver_s += r['solver_s']
        for t, h in r['source_hashes'].items():
            functions[t] = h
            if h.startswith('unresolved'):
                undecided.append("%s: contract target %s not found in the working tree" % (r['contract'], t))
        samples.extend(r['samples'][:1])
        for u in r['undecided']:
            undecided.append("%s: %s" % (r['contract'], u))
        is_bounded = bool(r.get('bounded'))
        if is_bounded:
            bounded_list.append({'contract': r['contract'], 'bound': r['bounded'], 'excluded_inputs': r.get('excluded_inputs'),
                                 'obligations': sorted(o['name'] for o in r['obligations'].values() if o['kind'] != 'canary')})
        if not r['obligations'] and not r['undecided']:
            broken.append("%s generated no obligations" % r['contract'])
        natives = sorted(o['name'] for o in r['obligations'].values() if o.get('native'))
        if natives and not is_bounded:
            cc_ = (r.get('crosscheck') or {}).get('clauses', {})
            bounded_list.append({'contract': r['contract'], 'bound': "clauses evaluated on native runs only (run-time contract check, %s sampled runs)"
                                 % (max([cc_.get(n.rsplit('/', 1)[1], 0) for n in natives] + [0])), 'excluded_inputs': None, 'obligations': natives})
        contract_bounded = is_bounded
        for o in r['obligations'].values():
            is_bounded = contract_bounded or bool(o.get('native'))
            all_names.append(o['name'])
            for b, k in o['backends'].items():
                backends[b] = backends.get(b, 0) + k
            if o['kind'] == 'canary':
                n_canary += 1
                if o['status'] != 'canary-ok':
                    broken.append("canary %s was proved (%s)" % (o['name'], o['detail']))
                continue
            if is_bounded:
                n_bounded += 1
            else:
                n_obl += 1
            if o['status'] == 'discharged':
                if is_bounded:
                    n_bounded_ok += 1
                else:
                    n_dis += 1
            elif o['status'] == 'undecided':
                undecided.append("%s: %s" % (o['name'], o['detail']))
            elif o['status'] == 'violated':
                rep = o['replay'] or {}
                rep['obligation'] = o['name']
                rep['property'] = prop
                rep['contract_targets'] = r['targets']
                rep['source_hashes'] = r['source_hashes']
                hit = [f for f in known if finding_matches(f, prop, o['name'], rep)]
                if hit:
                    known_hits.append((hit[0], o['name']))
                    # an open known finding is reported separately and is not part of the proved set
                    if is_bounded:
                        n_bounded -= 1
                    else:
                        n_obl -= 1
                    continue
                in_base = baseline is not None and o['name'] in baseline.get('discharged', [])
                if rep.get('reproduced'):
                    violations.append((o['name'], rep, ''))
                elif rep.get('interpreted_only') and in_base and 'symbolic_exception' not in rep:
                    violations.append((o['name'], rep, ' no-failing-input-found'))
                else:
                    undecided.append("%s: solver counter-model did not reproduce natively (%s)"
                                     % (o['name'], rep.get('symbolic_exception') or rep.get('summary')))
        cc = r.get('crosscheck')
        if cc:
            cross_runs += cc['runs']
            cross_evals += cc['clause_evals']
            if cc.get('error'):
                broken.append("%s: cross-check crashed: %s" % (r['contract'], cc['error']))
            for f in cc['failures']:
                oname = "%s/%s" % (r['contract'], f['clause'])
                rep = {'obligation': oname, 'property': prop, 'clause': f['clause'], 'reproduced': True,
                       'how': 'native-crosscheck', 'inputs': f['inputs'], 'observed': f['observed'],
                       'summary': "clause '%s' fails natively on a cross-check input" % f['clause'],
                       'contract_targets': r['targets'], 'source_hashes': r['source_hashes']}
                hit = [k for k in known if finding_matches(k, prop, oname, rep)]
                if hit:
                    if (hit[0], oname) not in known_hits:
                        known_hits.append((hit[0], oname))
                        # an open known finding is not part of the proved / bounded-ok set
                        ob_ = next((o for o in r['obligations'].values() if o['name'] == oname and o['status'] == 'discharged'), None)
                        if ob_ is not None:
                            if bool(r.get('bounded')) or ob_.get('native'):
                                n_bounded -= 1
                                n_bounded_ok -= 1
                            else:
                                n_obl -= 1
                                n_dis -= 1
                    continue
                if not any(v[0] == oname for v in violations):
                    violations.append((oname, rep, ''))
    # census
    if baseline is not None and census:
        # engine-generated obligations (divisors-nonzero; no-unexpected-exception, which exists only where some path raises) come and go
        # with how a term is written / which paths are feasible: not part of the census
        missing = [n for n in baseline.get('discharged', []) + baseline.get('bounded', []) if n not in all_names and not n.endswith(('/divisors-nonzero', '/no-unexpected-exception'))]
        if missing and not undecided and not broken:
            undecided.append("census: %d obligations of the committed baseline were not generated: %s"
                             % (len(missing), missing[:5]))
    if n_obl + n_bounded == 0:
        broken.append("no obligations at all")

    code = 0
    for name, rep, suffix in violations:
        path = os.path.join(OUT, 'replays', "%s-%s.json" % (prop, _san(name.split('/', 1)[1])))
        with open(path, 'w') as f:
            json.dump(rep, f, indent=1, default=str)
        lines.append("VIOLATION property=%s replay=%s%s" % (prop, path, suffix))
        lines.append("  obligation %s: %s" % (name, rep.get('summary')))
        code = 1
    for f, oname in known_hits:
        lines.append("KNOWN-FINDING: property=%s %s (%s)" % (prop, f.get('what_fails'), oname))
    if code == 0 and broken:
        code = 3
    if code == 0 and undecided:
        code = 2
    for b in broken:
        lines.append("BROKEN: " + b)
    for u in undecided:
        lines.append("UNDECIDED: " + u)

    ev = {
        'property_id': prop, 'tier': tier, 'seed': seed, 'level': 'proof',
        'coverage': {
            'obligations': n_obl, 'discharged': n_dis,
            'checker_cmd': "/verif/check %s --tier %s" % (prop, tier),
            'trusted_base': meta.get('trusted_base', []) + ["pyvc symbolic executor + numpy shim", "z3 5.1.0", "cvc5 1.0.3 (fallback)",
                                                             "Lean 4 / Mathlib lemma library (lean/HolopyLemmas.lean)"],
            'samples': samples[:6],
            'functions_under_contract': functions,
            'paths_enumerated': n_paths, 'verification_conditions': n_vcs,
            'backends': backends, 'solver_s': round(solver_s, 3),
            'canaries_refuted': n_canary,
            'bounded': bounded_list, 'bounded_obligations': n_bounded, 'bounded_ok': n_bounded_ok,
            'crosscheck_native_runs': cross_runs, 'crosscheck_clause_evaluations': cross_evals,
            'known_findings_reported': [f.get('id') for f, _ in known_hits],
            'known_finding_obligations': sorted(set(o for _, o in known_hits)),
            'obligations_note': "'obligations' excludes the obligations listed under known_finding_obligations (open, recorded defects of /repo reported as KNOWN-FINDING)",
            'out_of_reach_clauses': meta.get('out_of_reach', []),
            'obligation_names': sorted(set(all_names)),
            'lemma_library': (open(os.path.join(VERIF, 'lean', 'STATUS')).read().strip() if os.path.exists(os.path.join(VERIF, 'lean', 'STATUS')) else 'not-checked (setup.sh not run)'),
            'undecided': undecided, 'broken': broken,
            'extraction_drops': "nothing is extracted: the function objects imported from %s are executed; dropped by the "
                                "symbolic run: dtype width (float64->R, int64->Z), warnings/print output except recorded events, "
                                "exceptions raised inside library calls other than the modelled ones" % REPO,
        },
        'assumptions': GENERIC_ASSUMPTIONS + meta.get('assumptions', []),
        'wall_s': round(wall, 2),
        'violations': len(violations),
    }
    with open(os.path.join(OUT, 'evidence', prop + '.json'), 'w') as f:
        json.dump(ev, f, indent=1, default=str)
    if not quiet:
        print("%s tier=%s: %d contracts, %d paths, %d VCs; obligations %d/%d discharged, bounded %d/%d, %d canaries refuted, "
              "%d native cross-check runs; solver %.1fs wall %.1fs"
              % (prop, tier, len(results), n_paths, n_vcs, n_dis, n_obl, n_bounded_ok, n_bounded, n_canary, cross_runs,
                 solver_s, wall))
        for l in lines:
            print(l)
    return code, ev, all_names


def replay_file(prop, path):
    sys.path[:0] = [p for p in (os.path.join(VERIF, '.deps'), REPO, VERIF) if p not in sys.path]
    from pyvc import contract as C
    importlib.import_module('contracts.' + prop)
    rep = json.load(open(path))
    oname = rep['obligation']
    _, cname, clause = oname.split('/', 2)
    cdef = [c for c in C.REGISTRY[prop] if c.name == cname][0]
    vals = {k: C._unjson(v) for k, v in (rep.get('inputs') or rep.get('model') or {}).items()}
    st, res, used = C.run_concrete(cdef, values=vals)
    if st == 'exception':
        print("replay: contract %s raised %s: %s" % (cdef.ident, type(res).__name__, res))
        print("VIOLATION property=%s replay=%s" % (prop, path))
        return 1
    if st == 'rejected':
        print("replay: inputs no longer satisfy the precondition")
        return 0
    bad = [(n, d) for n, ok, d in res if n == clause and not ok]
    if bad:
        print("replay: clause %s fails on inputs %s: %s" % (clause, vals, bad[0][1]))
        print("VIOLATION property=%s replay=%s" % (prop, path))
        return 1
    print("replay: clause %s holds on inputs %s" % (clause, vals))
    return 0


def main(argv=None):
    ap = argparse.ArgumentParser()
    ap.add_argument('prop')
    ap.add_argument('--tier', default=os.environ.get('VERIF_TIER', 'quick'))
    ap.add_argument('--replay')
    ap.add_argument('--only')
    ap.add_argument('--jobs', type=int)
    ap.add_argument('--write-baseline', action='store_true')
    a = ap.parse_args(argv)
    seed = int(os.environ.get('VERIF_SEED', '0') or 0)
    if a.replay:
        return replay_file(a.prop, a.replay)
    try:
        meta, results, wall = run_property(a.prop, a.tier, seed, a.only, a.jobs)
        code, ev, names = summarize(a.prop, a.tier, seed, meta, results, wall, census=not a.write_baseline)
    except Exception:
        traceback.print_exc()
        print("BROKEN: checker crashed")
        return 3
    if a.write_baseline and code == 0:
        bpath = os.path.join(VERIF, 'baseline_obligations.json')
        base = _load_json(bpath, {})
        dis, bnd = [], []
        for r in results:
            for o in r['obligations'].values():
                if o['kind'] == 'canary' or o['status'] != 'discharged' or o['name'].endswith(('/divisors-nonzero', '/no-unexpected-exception')):
                    continue
                (bnd if (r.get('bounded') or o.get('native')) else dis).append(o['name'])
        cur = base.get(a.prop, {})
        if 'discharged' in cur:                  # old flat format
            cur = {}
        cur[a.tier] = {'discharged': sorted(dis), 'bounded': sorted(bnd)}
        base[a.prop] = cur
        with open(bpath, 'w') as f:
            json.dump(base, f, indent=1, sort_keys=True)
    return code


if __name__ == '__main__':
    sys.exit(main())
