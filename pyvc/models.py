"""Assumed contracts on dependencies (DESIGN.md section 3.2), executable on symbolic values.

Each model states what the library function computes; it replaces the library call in *symbolic*
runs only (native replays and the cross-check call the real library, which is how conformance of
the model with the installed version is tested on every run).
"""
import numpy as np
import xarray as xr

from . import shim
from .sym import is_sym


def _isnan(v):
    return (not is_sym(v)) and isinstance(v, float) and v != v


# xarray ------------------------------------------------------------------------------------
def nanmean_ddof_object(ddof, value, axis=None, dtype=None, **kwargs):
    """xarray.computation.nanops._nanmean_ddof_object without the `dtype=float` it forces on
    object arrays (the only change): mean over the non-null entries"""
    from xarray.core.duck_array_ops import count, fillna, where_method
    valid_count = count(value, axis=axis)
    value = fillna(value, 0)
    data = np.sum(value, axis=axis, **kwargs)
    den = valid_count - ddof
    data = data / np.where(den == 0, 1, den)      # numpy floats give nan for 0/0; objects would raise
    if not isinstance(data, np.ndarray):
        return data if valid_count != 0 else float('nan')
    return where_method(data, valid_count != 0)


def interpolate_na(self, dim=None, **kw):
    """DataArray.interpolate_na(dim): linear interpolation (in the coordinate `dim`) between the
    nearest valid neighbours; NaN is kept where a neighbour on either side is missing"""
    if not shim.has_sym(self) and not any(_isnan(v) for v in np.asarray(self.values, dtype=object).flat):
        return self
    ax = self.dims.index(dim)
    xs = [float(v) for v in self[dim].values]
    vals = np.array(self.values, dtype=object)

    def line(v):
        v = list(v)
        out = list(v)
        for k in range(len(v)):
            if not _isnan(v[k]):
                continue
            l = next((i for i in range(k - 1, -1, -1) if not _isnan(v[i])), None)
            r = next((i for i in range(k + 1, len(v)) if not _isnan(v[i])), None)
            if l is None or r is None:
                continue
            w = (xs[k] - xs[l]) / (xs[r] - xs[l])
            out[k] = v[l] + (v[r] - v[l]) * w
        res = np.empty(len(out), dtype=object)
        res[:] = out
        return res
    new = np.apply_along_axis(line, ax, vals)
    return self.copy(data=new)


# scipy --------------------------------------------------------------------------------------
def detrend(data, axis=-1, **kw):
    """scipy.signal.detrend(data, axis): subtract the least-squares straight line along `axis`"""
    arr = np.array(data.values if hasattr(data, 'values') else data, dtype=object)

    def line(v):
        n = len(v)
        if n == 1:
            res = np.empty(1, dtype=object)
            res[0] = v[0] - v[0]
            return res
        t = [k for k in range(n)]
        tm = sum(t) / n
        vm = sum(v) / n
        stt = sum((tk - tm) ** 2 for tk in t)
        slope = sum((tk - tm) * (vk - vm) for tk, vk in zip(t, v)) / stt
        res = np.empty(n, dtype=object)
        res[:] = [vk - (vm + slope * (tk - tm)) for tk, vk in zip(t, v)]
        return res
    return np.apply_along_axis(line, axis, arr)


XARRAY_PATCHES = [("xarray.computation.nanops", "_nanmean_ddof_object", nanmean_ddof_object),
                  ("xarray", "DataArray.interpolate_na", interpolate_na)]
