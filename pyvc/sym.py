"""Symbolic scalars and the path under exploration.

SNum / SCplx / SBool wrap z3 terms and overload the Python operators, so the
*real* function objects of /repo (and real numpy on object-dtype arrays) can be
run on them.  Every `bool()` of a symbolic condition is a branch point of the
current Path; the explorer (contract.py) re-executes the code once per feasible
branch sequence.

Semantics assumed (reported in every evidence file):
  float / np.float64  -> mathematical reals (z3 Real); int -> unbounded Int
  x / 0               -> z3's total division (never relied on: contracts state
                         non-zero divisors in `requires`)
  sqrt(a)             -> s with s >= 0, s*s = a, for a >= 0        [L-SQRT]
  sin/cos             -> polynomial normal form over per-atom (c, s) with
                         c*c + s*s = 1, addition theorems, 2*pi-periodicity
                         for integer multiples                      [L-TRIG]
  arctan2(y, x)       -> t in (-pi, pi], rho*cos t = x, rho*sin t = y,
                         rho = sqrt(x*x+y*y), arctan2(0, 0) = 0     [L-ATAN2]
  x % m, x // m (real)-> x = k*m + r, k integer, 0 <= r < m (m > 0) [floor]
  int // and %        -> Python floor semantics
  exp / log           -> uninterpreted, with the lemma instances of
                         lemmas.py added at discharge time          [L-EXP/L-LOG]
"""
import math
import time
import numbers
from fractions import Fraction

import z3

PI = z3.Real('pi')
PI_AXIOMS = [PI > z3.RealVal('3.1415926535897'), PI < z3.RealVal('3.1415926535898')]

POW = z3.Function('pow', z3.RealSort(), z3.RealSort(), z3.RealSort())


class Unsupported(Exception):
    """Construct outside the modelled subset: the obligation is *undecided*."""


class PathBudget(Exception):
    pass


class Cut(Exception):
    """a bounded stand-in stops exploring this path here (e.g. more redraws than the stated bound)"""


_CUR = [None]


def cur():
    p = _CUR[0]
    if p is None:
        raise RuntimeError("no symbolic path is active")
    return p


def active():
    return _CUR[0] is not None


def unsupported(msg):
    p = _CUR[0]
    if p is not None and p.unsupported is None:
        p.unsupported = msg
    raise Unsupported(msg)


class Path:
    MAX_DECISIONS = 600

    def __init__(self, prefix=(), feas_timeout_ms=800):
        self.prefix = list(prefix)
        self.taken = []
        self.pc = []
        self.ax = list(PI_AXIOMS)
        self.ax_tags = [None] * len(PI_AXIOMS)     # None: always relevant; else the symbols the axiom defines
        self.events = []
        self.n_fresh = 0
        self.atoms = {}      # key(sexpr) -> (arg expr, c, s)
        self.defs = {}       # const name -> (kind, args...) for numeric evaluation
        self.cache = {}
        self.keep = []       # keeps z3 asts alive (ids are used as cache keys)
        self.alts = []
        self.unsupported = None
        self.infeasible = False
        self.feas_timeout_ms = feas_timeout_ms
        self.solver_calls = 0
        self.inputs = {}     # declared inputs: name -> (kind, z3 const(s))
        self.uses_uninterpreted = False
        self.rng_calls = 0
        self.skip_eq_literals = ()   # see ContractDef.skip_eq_literals
        self.excluded = []
        self.exps = []
        self.logs = []
        self.sqrts = []
        self.atan2s = []
        self.angle_of = {}
        self.sqrt_sq = {}      # sqrt symbol (known non-negative radicand) -> polynomial of the radicand     # (cos term, sin term) in canonical form -> the angle they were built from
        self.divisors = {}     # denominators whose cancellation canon() relied on
        self.opaques = {}     # name -> list of (args tuple, result const)
        self.rng_limit = None

    # ------------------------------------------------------------------ fresh
    def fresh(self, base, sort='real'):
        self.n_fresh += 1
        name = "%s!%d" % (base, self.n_fresh)
        if sort == 'real':
            return z3.Real(name)
        if sort == 'int':
            return z3.Int(name)
        if sort == 'bool':
            return z3.Bool(name)
        raise ValueError(sort)

    def _axd(self, defines, fact):
        self.axiom(fact, defines)

    def axiom(self, fact, defines=None):
        self.ax.append(fact)
        self.ax_tags.append(None if defines is None else frozenset(str(d) for d in defines))

    def assume(self, cond):
        if isinstance(cond, SBool):
            cond = cond.e
        if cond is True:
            return
        if cond is False:
            self.infeasible = True
            self.pc.append(z3.BoolVal(False))
            return
        self.pc.append(cond)

    # --------------------------------------------------------------- branches
    def _feasible(self, cond):
        s = z3.Solver()
        s.set('timeout', self.feas_timeout_ms)
        s.add(*self.ax)
        s.add(*self.pc)
        s.add(cond)
        self.solver_calls += 1
        r = s.check()
        return r != z3.unsat

    def decide(self, cond):
        cond = z3.simplify(cond)
        if z3.is_true(cond):
            return True
        if z3.is_false(cond):
            return False
        if self.skip_eq_literals and z3.is_eq(cond) and cond.num_args() == 2:
            for a, b in ((cond.arg(0), cond.arg(1)), (cond.arg(1), cond.arg(0))):
                v = _numeral(b)
                if v is not None and v in self.skip_eq_literals and _numeral(a) is None:
                    # the contract excludes "some value equals exactly this literal" (an outcome-irrelevant
                    # comparison in the code under proof, covered by a separate contract): assume inequality
                    self.pc.append(z3.Not(cond))
                    if len(self.excluded) < 50:
                        self.excluded.append(str(cond)[:120])
                    return False
        i = len(self.taken)
        if i >= self.MAX_DECISIONS:
            if self.unsupported is None:
                self.unsupported = "more than %d symbolic branch points on one path" % i
            raise PathBudget(self.unsupported)
        if i < len(self.prefix):
            b = self.prefix[i]
        else:
            t = self._feasible(cond)
            f = self._feasible(z3.Not(cond))
            if t and f:
                self.alts.append(self.taken + [False])
                b = True
            elif t:
                b = True
            elif f:
                b = False
            else:
                self.infeasible = True
                b = True
        self.taken.append(b)
        self.pc.append(cond if b else z3.Not(cond))
        return b

    def event(self, kind, *payload):
        self.events.append((kind,) + payload)

    # ------------------------------------------------------------------- trig
    def trig_atom(self, arg):
        """(cos, sin) constants for an opaque angle term `arg`."""
        arg = canon(arg, self)
        key = arg.sexpr()
        if key not in self.atoms:
            c = self.fresh('cos')
            s = self.fresh('sin')
            self.atoms[key] = (arg, c, s)
            self._axd((c, s), c * c + s * s == 1)
            self.defs[str(c)] = ('cos', arg)
            self.defs[str(s)] = ('sin', arg)
        _, c, s = self.atoms[key]
        return c, s

    def cos_sin(self, e):
        """Polynomial normal form of (cos e, sin e)."""
        terms, const = lin_decompose(e)
        c_acc, s_acc = z3.RealVal(1), z3.RealVal(0)

        def add(c1, s1, c2, s2):
            return c1 * c2 - s1 * s2, s1 * c2 + c1 * s2

        pi_coeff = Fraction(0)
        for key, (atom, q) in sorted(terms.items()):
            if z3.eq(atom, PI):
                pi_coeff += q
                continue
            k = _int_times_pi(atom)
            if k is not None:
                # (integer-valued term) * pi * q : drop when q is an even integer
                if q.denominator == 1 and q.numerator % 2 == 0:
                    continue
                # general parity is not modelled
                a_c, a_s = self.trig_atom(atom * _rv(q))
                c_acc, s_acc = add(c_acc, s_acc, a_c, a_s)
                continue
            if q.denominator == 1 and abs(q.numerator) <= 8:
                n = q.numerator
                a_c, a_s = self.trig_atom(atom)
                if n < 0:
                    a_s = -a_s
                    n = -n
                for _ in range(n):
                    c_acc, s_acc = add(c_acc, s_acc, a_c, a_s)
            elif abs(q.numerator) <= 8 and q.denominator <= 12:
                # q = p/r: the atom is (monomial / r), taken p times
                a_c, a_s = self.trig_atom(atom * _rv(Fraction(1, q.denominator)))
                n = q.numerator
                if n < 0:
                    a_s = -a_s
                    n = -n
                for _ in range(n):
                    c_acc, s_acc = add(c_acc, s_acc, a_c, a_s)
            else:
                a_c, a_s = self.trig_atom(atom * _rv(q))
                c_acc, s_acc = add(c_acc, s_acc, a_c, a_s)
        if const != 0:
            # a numeric offset in radians: opaque atom
            a_c, a_s = self.trig_atom(_rv(const))
            c_acc, s_acc = add(c_acc, s_acc, a_c, a_s)
        # multiples of pi/2 exactly
        if pi_coeff != 0:
            h = pi_coeff * 2
            if h.denominator == 1:
                m = h.numerator % 4
                pc, ps = [(1, 0), (0, 1), (-1, 0), (0, -1)][m]
                c_acc, s_acc = add(c_acc, s_acc, _rv(pc), _rv(ps))
            else:
                a_c, a_s = self.trig_atom(PI * _rv(pi_coeff))
                c_acc, s_acc = add(c_acc, s_acc, a_c, a_s)
        c_fin, s_fin = canon(c_acc, self), canon(s_acc, self)
        self.angle_of[(c_fin.sexpr(), s_fin.sexpr())] = e
        return c_fin, s_fin

    # ------------------------------------------------------------ definitions
    def cached(self, kind, args, make):
        key = (kind,) + tuple(a.get_id() for a in args)
        if key not in self.cache:
            self.keep.extend(args)
            self.cache[key] = make()
        return self.cache[key]

    def sqrt(self, a, known_nonneg=False):
        """known_nonneg: the caller guarantees a >= 0 structurally (a sum of squares), so the
        defining axiom is stated unconditionally"""
        a = canon(a, self)
        v = _numeral(a)
        if v is not None and v >= 0:
            n, d = v.numerator, v.denominator
            rn, rd = math.isqrt(n), math.isqrt(d)
            if rn * rn == n and rd * rd == d:
                return _rv(Fraction(rn, rd))

        def make():
            s = self.fresh('sqrt')
            if known_nonneg:
                self._axd((s,), z3.And(s >= 0, s * s == a))
                try:
                    self.sqrt_sq[s.sexpr()] = _poly(a)      # s*s may be rewritten to a (unconditionally valid)
                    _ATOMS.setdefault(s.sexpr(), s)
                except (OverflowError, RecursionError):
                    pass
            else:
                self._axd((s,), z3.Implies(a >= 0, z3.And(s >= 0, s * s == a)))
            self.defs[str(s)] = ('sqrt', a)
            self.sqrts.append((a, s))
            return s
        return self.cached('sqrt', [a], make)

    def cbrt(self, a):
        a = z3.simplify(a)

        def make():
            s = self.fresh('cbrt')
            self._axd((s,), s * s * s == a)
            self._axd((s,), z3.Implies(a >= 0, s >= 0))
            self.defs[str(s)] = ('cbrt', a)
            return s
        return self.cached('cbrt', [a], make)

    def arctan2(self, y, x):
        y = canon(y, self)
        x = canon(x, self)
        known = self.angle_of.get((x.sexpr(), y.sexpr()))
        if known is not None:
            # arctan2(sin a, cos a) = a - 2 pi k, the representative in (-pi, pi]      [L-ATAN2: arg(e^{ia}) = a mod 2 pi]
            def wrap():
                k = self.fresh('awrap', 'int')
                t = known - 2 * PI * z3.ToReal(k)
                self._axd((k,), z3.And(t > -PI, t <= PI))
                self.defs[str(k)] = ('awrap', known)
                return t
            return self.cached('awrap', [x, y], wrap)

        def make():
            t = self.fresh('atan2')
            rho = self.sqrt(x * x + y * y)
            c, s = self.trig_atom(t)
            self._axd((t, c, s), z3.And(t > -PI, t <= PI))
            self._axd((t, c, s), rho * c == x)
            self._axd((t, c, s), rho * s == y)
            self._axd((t, c, s), z3.Implies(z3.And(x == 0, y == 0), t == 0))
            # sign facts (consequences of the above, help the solver)
            self._axd((t, c, s), z3.Implies(y > 0, z3.And(t > 0, t < PI)))
            self._axd((t, c, s), z3.Implies(y < 0, z3.And(t < 0)))
            self._axd((t, c, s), z3.Implies(z3.And(y == 0, x > 0), t == 0))
            self._axd((t, c, s), z3.Implies(z3.And(y == 0, x < 0), t == PI))
            self._axd((t, c, s), z3.Implies(z3.And(x > 0), z3.And(t > -PI / 2, t < PI / 2)))
            self._axd((t, c, s), z3.Implies(z3.And(x == 0, y > 0), t == PI / 2))
            self._axd((t, c, s), z3.Implies(z3.And(x == 0, y < 0), t == -PI / 2))
            self.defs[str(t)] = ('atan2', y, x)
            self.atan2s.append((y, x, t))
            return t
        return self.cached('atan2', [y, x], make)

    def arccos(self, x):
        x = z3.simplify(x)

        def make():
            t = self.fresh('acos')
            c, s = self.trig_atom(t)
            self._axd((t, c, s), z3.Implies(z3.And(x >= -1, x <= 1),
                                      z3.And(t >= 0, t <= PI, c == x, s >= 0)))
            self.defs[str(t)] = ('acos', x)
            return t
        return self.cached('acos', [x], make)

    def arcsin(self, x):
        x = z3.simplify(x)

        def make():
            t = self.fresh('asin')
            c, s = self.trig_atom(t)
            self._axd((t, c, s), z3.Implies(z3.And(x >= -1, x <= 1),
                                      z3.And(t >= -PI / 2, t <= PI / 2, s == x, c >= 0)))
            self.defs[str(t)] = ('asin', x)
            return t
        return self.cached('asin', [x], make)

    def floor(self, x):
        x = z3.simplify(x)
        if x.is_int():
            return x

        def make():
            k = self.fresh('floor', 'int')
            self._axd((k,), z3.And(z3.ToReal(k) <= x, x < z3.ToReal(k) + 1))
            self.defs[str(k)] = ('floor', x)
            return k
        return self.cached('floor', [x], make)

    def rint(self, x):
        """round-half-to-even (np.round / np.rint / Python round)"""
        x = z3.simplify(x)
        if x.is_int():
            return x

        def make():
            k = self.fresh('rint', 'int')
            kr = z3.ToReal(k)
            self._axd((k,), z3.And(kr - x <= z3.RealVal('1/2'), x - kr <= z3.RealVal('1/2')))
            self._axd((k,), z3.Implies(z3.Or(x - kr == z3.RealVal('1/2'), kr - x == z3.RealVal('1/2')),
                                      k % 2 == 0))
            self.defs[str(k)] = ('rint', x)
            return k
        return self.cached('rint', [x], make)

    def fmod_floor(self, x, m):
        """(k, r) with x = k*m + r, r in [0, m) for m > 0, (m, 0] for m < 0"""
        x = canon(x, self)
        m = canon(m, self)

        def make():
            k = self.fresh('fdiv', 'int')
            r = x - z3.ToReal(k) * m
            self._axd((k,), z3.Implies(m > 0, z3.And(r >= 0, r < m)))
            self._axd((k,), z3.Implies(m < 0, z3.And(r <= 0, r > m)))
            self.defs[str(k)] = ('fdiv', x, m)
            return k
        k = self.cached('fdiv', [x, m], make)
        return k, x - z3.ToReal(k) * m

    def exp(self, a):
        a = canon(a, self)
        v = _numeral(a)
        if v is not None and v == 0:
            return _rv(1)
        self.uses_uninterpreted = True

        def make():
            e = self.fresh('exp')
            self._axd((e,), e > 0)
            self.exps.append((a, e))
            self.defs[str(e)] = ('exp', a)
            return e
        return self.cached('exp', [a], make)

    def log(self, a):
        a = canon(a, self)
        v = _numeral(a)
        if v is not None and v == 1:
            return _rv(0)
        self.uses_uninterpreted = True

        def make():
            l = self.fresh('log')
            self.logs.append((a, l))
            self.defs[str(l)] = ('log', a)
            return l
        return self.cached('log', [a], make)

    def opaque(self, name, args, sort='real'):
        """value of an uninterpreted (deterministic) function `name` at `args` (z3 terms): one
        constant per syntactically distinct argument tuple; congruence is supplied as conditional
        instances by lemma_instances (the VCs stay free of uninterpreted functions)"""
        args = tuple(canon(a, self) for a in args)
        key = ('opaque', name) + tuple(a.get_id() for a in args)
        if key not in self.cache:
            self.keep.extend(args)
            r = self.fresh(name, sort)
            self.cache[key] = r
            self.opaques.setdefault(name, []).append((args, r))
        return self.cache[key]

    # ------------------------------------------------------- lemma saturation
    def lemma_instances(self, limit=4000):
        """Conditional instances of the lemma schemas (L-EXP, L-LOG, L-TRIG congruence) over the
        exp / log / trig atoms that occur on this path.  exp, log, cos, sin are represented by
        fresh constants (so the VCs stay in QF_NRA); these instances replace congruence and the
        functional equations.  Every instance is of the form  (arithmetic condition) => (equation)
        and is valid for the real functions; the solver decides the conditions."""
        out = []
        ex, lg = self.exps, self.logs
        at = [(a, c, s) for (a, c, s) in self.atoms.values()]
        one, zero = z3.RealVal(1), z3.RealVal(0)
        for i, (a, e) in enumerate(ex):
            out.append(z3.Implies(a == 0, e == 1))
            out.append(z3.Implies(a > 0, e > 1))
            out.append(z3.Implies(a < 0, e < 1))
            out.append(e >= 1 + a)
            for j, (b, f) in enumerate(ex):
                if j <= i:
                    continue
                out.append(z3.Implies(a == b, e == f))
                out.append(z3.Implies(a < b, e < f))
                out.append(z3.Implies(b < a, f < e))
                out.append(z3.Implies(a + b == 0, e * f == 1))
                out.append(z3.Implies(a == 2 * b, e == f * f))
                out.append(z3.Implies(b == 2 * a, f == e * e))
                out.append(z3.Implies(a == 3 * b, e == f * f * f))
                out.append(z3.Implies(b == 3 * a, f == e * e * e))
                for k, (cc, g) in enumerate(ex):
                    if k == i or k == j:
                        continue
                    out.append(z3.Implies(a + b == cc, e * f == g))
        for i, (a, l) in enumerate(lg):
            out.append(z3.Implies(a == 1, l == 0))
            out.append(z3.Implies(a > 1, l > 0))
            out.append(z3.Implies(z3.And(a > 0, a < 1), l < 0))
            for (b, e) in ex:
                out.append(z3.Implies(a == e, l == b))          # log(exp b) = b
                out.append(z3.Implies(z3.And(a > 0, b == l), e == a))   # exp(log a) = a
            for j, (b, m) in enumerate(lg):
                if j <= i:
                    continue
                out.append(z3.Implies(a == b, l == m))
                out.append(z3.Implies(z3.And(a > 0, b > 0, a * b == 1), l + m == 0))
                out.append(z3.Implies(z3.And(a > 0, b > 0, a < b), l < m))
                out.append(z3.Implies(z3.And(a > 0, b > 0, b < a), m < l))
                out.append(z3.Implies(z3.And(b > 0, a == b * b), l == 2 * m))
                out.append(z3.Implies(z3.And(a > 0, b == a * a), m == 2 * l))
                for k, (cc, n) in enumerate(lg):
                    if k == i or k == j:
                        continue
                    out.append(z3.Implies(z3.And(a > 0, b > 0, a * b == cc), l + m == n))
                    out.append(z3.Implies(z3.And(a > 0, b > 0, a == b * cc), l == m + n))
        for name, calls in self.opaques.items():
            if len(calls) > 60:
                continue
            for i, (a, r) in enumerate(calls):
                for (b, q) in calls[i + 1:]:
                    if len(a) == len(b) and not all(z3.eq(u, v) for u, v in zip(a, b)):
                        out.append(z3.Implies(z3.And(*[u == v for u, v in zip(a, b)]), r == q))
        if len(self.atan2s) <= 30:
            for i, (y1, x1, t1) in enumerate(self.atan2s):
                for (y2, x2, t2) in self.atan2s[i + 1:]:
                    out.append(z3.Implies(z3.And(y1 == y2, x1 == x2), t1 == t2))       # congruence of arctan2
        if len(self.sqrts) <= 40:
            for i, (a, r) in enumerate(self.sqrts):
                for (b, q) in self.sqrts[i + 1:]:
                    out.append(z3.Implies(a == b, r == q))       # congruence of sqrt
        for i, (a, c, s_) in enumerate(at):
            out.append(z3.Implies(a == 0, z3.And(c == 1, s_ == 0)))
            for j, (b, c2, s2) in enumerate(at):
                if j <= i:
                    continue
                out.append(z3.Implies(a == b, z3.And(c == c2, s_ == s2)))
                out.append(z3.Implies(a + b == 0, z3.And(c == c2, s_ == -s2)))
                for (x, cx, sx, y, cy, sy) in ((a, c, s_, b, c2, s2), (b, c2, s2, a, c, s_)):
                    out.append(z3.Implies(x == 2 * y, z3.And(cx == cy * cy - sy * sy, sx == 2 * sy * cy)))
                    out.append(z3.Implies(x == 3 * y, z3.And(cx == 4 * cy * cy * cy - 3 * cy,
                                                             sx == 3 * sy - 4 * sy * sy * sy)))
                    out.append(z3.Implies(x + 2 * y == 0, z3.And(cx == cy * cy - sy * sy, sx == -2 * sy * cy)))
                    out.append(z3.Implies(x + 3 * y == 0, z3.And(cx == 4 * cy * cy * cy - 3 * cy,
                                                                 sx == -(3 * sy - 4 * sy * sy * sy))))
                if len(at) <= 8:
                    for k, (d, c3, s3) in enumerate(at):
                        if k == i or k == j:
                            continue
                        out.append(z3.Implies(a + b == d, z3.And(c3 == c * c2 - s_ * s2, s3 == s_ * c2 + c * s2)))
        tagged = []
        for f in out[:limit]:
            concl = f.arg(1) if z3.is_implies(f) else f
            tagged.append((frozenset(n for n in const_names(concl) if '!' in n), f))
        return tagged


_CONST_CACHE = {}


def const_names(t):
    """names of the uninterpreted constants occurring in a z3 term"""
    k = t.get_id()
    r = _CONST_CACHE.get(k)
    if r is not None and r[0].eq(t):
        return r[1]
    if z3.is_const(t):
        res = frozenset([t.decl().name()]) if t.decl().kind() == z3.Z3_OP_UNINTERPRETED else frozenset()
    else:
        acc = set()
        for ch in t.children():
            acc |= const_names(ch)
        res = frozenset(acc)
    _CONST_CACHE[k] = (t, res)
    return res


# ---------------------------------------------------------------------------
def _rv(q):
    if isinstance(q, Fraction):
        return z3.RealVal(str(q))
    if isinstance(q, bool):
        return z3.RealVal(int(q))
    if isinstance(q, int):
        return z3.RealVal(q)
    return z3.RealVal(repr(float(q)))


def _numeral(e):
    """Fraction value of a numeric z3 term, else None"""
    if z3.is_rational_value(e):
        return Fraction(e.numerator_as_long(), e.denominator_as_long())
    if z3.is_int_value(e):
        return Fraction(e.as_long())
    if z3.is_app_of(e, z3.Z3_OP_TO_REAL):
        return _numeral(e.arg(0))
    return None


def _int_times_pi(atom):
    """atom is pi times a product of integer-valued terms (in any order) -> True-ish"""
    if z3.is_app_of(atom, z3.Z3_OP_MUL):
        fs = []

        def flat(t):
            if z3.is_app_of(t, z3.Z3_OP_MUL):
                for ch in t.children():
                    flat(ch)
            else:
                fs.append(t)
        flat(atom)
        pis = [f for f in fs if z3.eq(f, PI)]
        rest = [f for f in fs if not z3.eq(f, PI)]
        if len(pis) == 1 and rest and all(z3.is_app_of(f, z3.Z3_OP_TO_REAL) or f.is_int() for f in rest):
            return rest
    return None


def _poly(t, depth=0):
    """expand t into {monomial: Fraction}; a monomial is a sorted tuple of (atom key, power);
    atoms (non-polynomial subterms, reciprocals of non-numerals) are collected in _poly.atoms"""
    v = _numeral(t)
    if v is not None:
        return {(): v} if v != 0 else {}
    if z3.is_app_of(t, z3.Z3_OP_ADD):
        out = {}
        for ch in t.children():
            for m, q in _poly(ch, depth + 1).items():
                out[m] = out.get(m, 0) + q
        return {m: q for m, q in out.items() if q != 0}
    if z3.is_app_of(t, z3.Z3_OP_SUB):
        ch = t.children()
        out = dict(_poly(ch[0], depth + 1))
        for c in ch[1:]:
            for m, q in _poly(c, depth + 1).items():
                out[m] = out.get(m, 0) - q
        return {m: q for m, q in out.items() if q != 0}
    if z3.is_app_of(t, z3.Z3_OP_UMINUS):
        return {m: -q for m, q in _poly(t.arg(0), depth + 1).items()}
    if z3.is_app_of(t, z3.Z3_OP_MUL):
        out = {(): Fraction(1)}
        for ch in t.children():
            out = _poly_mul(out, _poly(ch, depth + 1))
            if len(out) > 400:
                raise OverflowError
        return out
    if z3.is_app_of(t, z3.Z3_OP_DIV):
        num, den = t.arg(0), t.arg(1)
        d = _numeral(den)
        if d is not None and d != 0:
            return {m: q / d for m, q in _poly(num, depth + 1).items()}
        dp = _poly(den, depth + 1)
        if len(dp) == 1:
            # reciprocal of a monomial: negative powers
            (m, q), = dp.items()
            inv = tuple((k, -p) for k, p in m)
            return _poly_mul(_poly(num, depth + 1), {inv: 1 / q})
        # a genuine polynomial denominator: use its canonical expansion, normalised to leading coefficient 1,
        # as the atom, so that equal denominators written differently share it
        lead = sorted(dp, key=repr)[0]
        q0 = dp[lead]
        den_c = _rebuild({m: q / q0 for m, q in dp.items()})
        key = _atom_key(z3.RealVal(1) / den_c)
        return _poly_mul(_poly(num, depth + 1), {((key, 1),): 1 / q0})
    if z3.is_app_of(t, z3.Z3_OP_TO_REAL):
        inner = t.arg(0)
        if z3.is_app_of(inner, z3.Z3_OP_ADD) or z3.is_app_of(inner, z3.Z3_OP_SUB) or \
                z3.is_app_of(inner, z3.Z3_OP_UMINUS):
            pass
    if z3.is_app_of(t, z3.Z3_OP_POWER):
        e = _numeral(t.arg(1))
        if e is not None and e.denominator == 1 and 0 <= e.numerator <= 8:
            out = {(): Fraction(1)}
            base = _poly(t.arg(0), depth + 1)
            for _ in range(e.numerator):
                out = _poly_mul(out, base)
            return out
    return {((_atom_key(t), 1),): Fraction(1)}


def _rebuild(p):
    total = None
    for m in sorted(p, key=repr):
        q = p[m]
        term = _mono_expr(m) if m else None
        t = _rv(q) if term is None else (term if q == 1 else _rv(q) * term)
        total = t if total is None else total + t
    return total if total is not None else z3.RealVal(0)


_ATOMS = {}


def _atom_key(t):
    k = t.sexpr()
    _ATOMS[k] = t
    return k


def _poly_mul(a, b):
    out = {}
    for m1, q1 in a.items():
        for m2, q2 in b.items():
            d = dict(m1)
            for k, p in m2:
                d[k] = d.get(k, 0) + p
            m = tuple(sorted((k, p) for k, p in d.items() if p != 0))
            out[m] = out.get(m, 0) + q1 * q2
    return {m: q for m, q in out.items() if q != 0}


def _mono_expr(m):
    """z3 term of a monomial, factors in canonical (sorted) order"""
    num, den = None, None
    for k, p in m:
        a = _ATOMS[k]
        a = _real(a)
        for _ in range(abs(p)):
            if p > 0:
                num = a if num is None else num * a
            else:
                den = a if den is None else den * a
    if num is None:
        num = z3.RealVal(1)
    return num if den is None else num / den


def canon(e, path=None):
    """canonical form of a real term: the fully expanded polynomial over atoms with integer (possibly
    negative) powers, rebuilt with monomials and factors in sorted order.  Equal rational functions such as
    (k/s)*(s*x - s*c) and k*(x - c) get the SAME term.  Cancelling d * (1/d) assumes d != 0: the cancelled
    denominators are recorded on the path and proved non-zero under the path condition ('divisors-nonzero')."""
    e = z3.simplify(e)
    if e.sort().kind() != z3.Z3_REAL_SORT:
        return e
    try:
        p = _poly(e)
    except (OverflowError, RecursionError):
        return e
    if path is not None and (path.atoms or path.sqrt_sq):
        p = _reduce_trig(p, path)
    if len(p) > 80:
        return e
    total = z3.RealVal(0)
    first = True
    for m in sorted(p, key=repr):
        q = p[m]
        term = _mono_expr(m) if m else None
        if term is None:
            t = _rv(q)
        elif q == 1:
            t = term
        else:
            t = _rv(q) * term
        total = t if first else total + t
        first = False
    if first:
        return z3.RealVal(0)
    if path is not None:
        for d in _denominators(e):
            k = d.get_id()
            if k not in path.divisors:
                path.divisors[k] = d
    return total


def _reduce_trig(p, path):
    """normal form modulo  sin(a)^2 = 1 - cos(a)^2  for the trig atoms of the path (L-TRIG)"""
    pairs = {}
    for (arg, c, s_) in path.atoms.values():
        pairs[s_.sexpr()] = c.sexpr()
        _ATOMS.setdefault(c.sexpr(), c)
        _ATOMS.setdefault(s_.sexpr(), s_)
    changed = True
    guard = 0
    while changed and guard < 12:
        changed = False
        guard += 1
        out = {}
        for m, q in p.items():
            hit = None
            for (k, pw) in m:
                if (k in pairs or k in path.sqrt_sq) and pw >= 2:
                    hit = (k, pw)
                    break
            if hit is None:
                out[m] = out.get(m, 0) + q
                continue
            changed = True
            k, pw = hit
            rest = tuple((kk, pp) for kk, pp in m if kk != k)
            base = {rest + (((k, pw - 2),) if pw - 2 > 0 else ()): q}
            base = {tuple(sorted(mm)): qq for mm, qq in base.items()}
            if k in pairs:
                repl = {(): Fraction(1), ((pairs[k], 2),): Fraction(-1)}      # sin^2 = 1 - cos^2
            else:
                repl = path.sqrt_sq[k]                                       # sqrt(a)^2 = a  (a >= 0 structurally)
            for mm, qq in _poly_mul(base, repl).items():
                out[mm] = out.get(mm, 0) + qq
        p = {m: q for m, q in out.items() if q != 0}
        if len(p) > 200:
            break
    return p


# ----------------------------------------------------------- rational functions as single fractions
class _TooBig(Exception):
    pass


_FRAC_LIMIT = 200000
_FRAC_SECONDS = 12.0          # default budget of one normalisation; contracts that need more say so with frac_budget()
_frac_deadline = [None]


import contextlib as _contextlib


@_contextlib.contextmanager
def frac_budget(seconds):
    """a larger time budget for the rational-function normaliser inside a contract"""
    global _FRAC_SECONDS
    saved = _FRAC_SECONDS
    _FRAC_SECONDS = seconds
    try:
        yield
    finally:
        _FRAC_SECONDS = saved


def _pmul(a, b):
    if len(a) * len(b) > 40 * _FRAC_LIMIT or (_frac_deadline[0] is not None and time.time() > _frac_deadline[0]):
        raise _TooBig()
    out = {}
    get = out.get
    for m1, q1 in a.items():
        if not m1:
            for m2, q2 in b.items():
                out[m2] = get(m2, 0) + q1 * q2
            continue
        d1 = dict(m1)
        for m2, q2 in b.items():
            if not m2:
                m = m1
            else:
                d = dict(d1)
                for k, pw in m2:
                    v = d.get(k, 0) + pw
                    if v:
                        d[k] = v
                    else:
                        d.pop(k, None)
                m = tuple(sorted(d.items()))
            out[m] = get(m, 0) + q1 * q2
        if len(out) > _FRAC_LIMIT:
            raise _TooBig()
    return {m: (int(q) if isinstance(q, Fraction) and q.denominator == 1 else q) for m, q in out.items() if q != 0}


def _padd(a, b, sign=1):
    out = dict(a)
    for m, q in b.items():
        v = out.get(m, 0) + sign * q
        if v == 0:
            out.pop(m, None)
        else:
            out[m] = v
    return out


def _ppow(a, k):
    out = {(): Fraction(1)}
    for _ in range(k):
        out = _pmul(out, a)
    return out


def _factor_key(p):
    """(key, unit): p = unit * (polynomial with leading coefficient 1, identified by key)"""
    lead = sorted(p, key=repr)[0]
    u = p[lead]
    norm = {m: q / u for m, q in p.items()}
    return repr(sorted(norm.items(), key=repr)), norm, u


def _frac(t, memo):
    """t = N / prod(f^k): N a polynomial {monomial: Fraction} over atoms, the denominator a dict
    factor key -> (polynomial, power).  Atoms are the non-arithmetic subterms."""
    k = t.get_id()
    if k in memo:
        return memo[k]
    v = _numeral(t)
    if v is not None:
        r = ({(): v} if v != 0 else {}, {})
    elif z3.is_app_of(t, z3.Z3_OP_ADD) or z3.is_app_of(t, z3.Z3_OP_SUB):
        parts = [_frac(ch, memo) for ch in t.children()]
        signs = [1] + [(-1 if z3.is_app_of(t, z3.Z3_OP_SUB) else 1)] * (len(parts) - 1)
        den = {}
        for _, d in parts:
            for key, (poly, pw) in d.items():
                if key not in den or den[key][1] < pw:
                    den[key] = (poly, pw)
        num = {}
        for (n, d), sg in zip(parts, signs):
            term = n
            for key, (poly, pw) in den.items():
                have = d.get(key, (None, 0))[1]
                if pw - have:
                    term = _pmul(term, _ppow(poly, pw - have))
            num = _padd(num, term, sg)
        r = (num, den)
    elif z3.is_app_of(t, z3.Z3_OP_UMINUS):
        n, d = _frac(t.arg(0), memo)
        r = ({m: -q for m, q in n.items()}, d)
    elif z3.is_app_of(t, z3.Z3_OP_MUL):
        num, den = {(): Fraction(1)}, {}
        for ch in t.children():
            n, d = _frac(ch, memo)
            num = _pmul(num, n)
            for key, (poly, pw) in d.items():
                den[key] = (poly, den.get(key, (poly, 0))[1] + pw)
        r = (num, den)
    elif z3.is_app_of(t, z3.Z3_OP_DIV):
        n1, d1 = _frac(t.arg(0), memo)
        n2, d2 = _frac(t.arg(1), memo)
        if not n2:
            raise _TooBig()          # division by a syntactic zero: leave it to the solver
        num = n1
        den = dict(d1)
        for key, (poly, pw) in d2.items():      # 1/(1/f) = f
            num = _pmul(num, _ppow(poly, pw))
        if len(n2) == 1 and () in n2:
            num = {m: q / n2[()] for m, q in num.items()}
        else:
            key, norm, unit = _factor_key(n2)
            num = {m: q / unit for m, q in num.items()}
            den[key] = (norm, den.get(key, (norm, 0))[1] + 1)
        r = (num, den)
    elif z3.is_app_of(t, z3.Z3_OP_POWER) and _numeral(t.arg(1)) is not None and _numeral(t.arg(1)).denominator == 1 \
            and 0 <= _numeral(t.arg(1)).numerator <= 8:
        e = _numeral(t.arg(1)).numerator
        n, d = _frac(t.arg(0), memo)
        r = (_ppow(n, e), {key: (poly, pw * e) for key, (poly, pw) in d.items()})
    elif z3.is_app_of(t, z3.Z3_OP_TO_REAL) and _numeral(t.arg(0)) is not None:
        r = ({(): _numeral(t.arg(0))}, {})
    else:
        r = ({((_atom_key(t), 1),): Fraction(1)}, {})
    memo[k] = r
    return r


def ratfun_zero(e, path=None):
    """True iff the real term e, read as a rational function of its non-arithmetic subterms, has an identically zero
    numerator - i.e. e = 0 wherever none of its divisors vanishes.  The divisors are recorded on the path and proved
    non-zero under the path condition ('divisors-nonzero').  False means 'not recognised', never 'non-zero'."""
    _frac_deadline[0] = time.time() + _FRAC_SECONDS
    try:
        num, den = _frac(z3.simplify(e), {})
    except (_TooBig, OverflowError, RecursionError):
        return False
    finally:
        _frac_deadline[0] = None
    if path is not None and num and (path.atoms or path.sqrt_sq):
        try:
            num = _reduce_trig(num, path)
        except Exception:
            pass
    if num:
        return False
    if path is not None:
        for d in _denominators(e):
            k = d.get_id()
            if k not in path.divisors:
                path.divisors[k] = d
    return True


def _denominators(e, acc=None, seen=None):
    """non-numeral denominators occurring in e"""
    acc = [] if acc is None else acc
    seen = set() if seen is None else seen
    k = e.get_id()
    if k in seen:
        return acc
    seen.add(k)
    if z3.is_app_of(e, z3.Z3_OP_DIV) and _numeral(e.arg(1)) is None:
        acc.append(e.arg(1))
    for ch in e.children():
        _denominators(ch, acc, seen)
    return acc


def lin_decompose(e):
    """e = sum q_j * atom_j + const, q_j rational.  The atoms are the canonical monomials of the
    fully expanded polynomial (reciprocals of non-numeral terms count as factors with negative
    power), so that  k*(d1+d2)/lam  and  k*d1/lam + k*d2/lam  decompose identically.
    Returns ({key: (atom term, q)}, const)."""
    try:
        p = _poly(z3.simplify(e))
    except (OverflowError, RecursionError):
        p = {((_atom_key(z3.simplify(e)), 1),): Fraction(1)}
    terms = {}
    const = Fraction(0)
    for m, q in p.items():
        if m == ():
            const += q
            continue
        atom = _mono_expr(m)
        key = repr(m)
        terms[key] = (atom, q)
    return terms, const


# ---------------------------------------------------------------------------
class _Inf(Exception):
    def __init__(self, v):
        self.v = v


def _coerce(v):
    """python / numpy number -> z3 arith term; raises _Inf for inf/nan; returns
    None if v is not a plain real number"""
    if isinstance(v, SNum):
        return v.e
    if isinstance(v, (bool,)):
        return z3.IntVal(int(v))
    if isinstance(v, numbers.Integral):
        return z3.IntVal(int(v))
    if isinstance(v, Fraction):
        return z3.RealVal(str(v))
    if isinstance(v, numbers.Real):
        f = float(v)
        if math.isinf(f) or math.isnan(f):
            raise _Inf(f)
        return z3.RealVal(repr(f))
    return None


def _is_complex_like(v):
    return isinstance(v, SCplx) or (isinstance(v, numbers.Complex) and not isinstance(v, numbers.Real)
                                    and not isinstance(v, (SNum, SCplx)))


def py_floordiv_int(a, b):
    return z3.If(b > 0, a / b, (-a) / (-b))


class SNum(numbers.Number):
    """symbolic real or integer"""
    __slots__ = ('e',)

    def __init__(self, e):
        self.e = e

    # numpy treats us as an opaque object scalar
    def __repr__(self):
        return "SNum(%s)" % (self.e,)

    def __hash__(self):
        return id(self)

    @property
    def is_int(self):
        return self.e.is_int()

    def _bin(self, o, f, rf=None):
        if isinstance(o, SCplx) or _is_complex_like(o):
            return NotImplemented
        try:
            oe = _coerce(o)
        except _Inf as inf:
            return ('inf', inf.v)
        if oe is None:
            return NotImplemented
        return oe

    def __add__(self, o):
        oe = self._bin(o, None)
        if oe is NotImplemented:
            return SCplx.of(self) + o if (_is_complex_like(o)) else NotImplemented
        if isinstance(oe, tuple):
            return oe[1]
        return SNum(self.e + oe)
    __radd__ = __add__

    def __sub__(self, o):
        oe = self._bin(o, None)
        if oe is NotImplemented:
            return SCplx.of(self) - o if (_is_complex_like(o)) else NotImplemented
        if isinstance(oe, tuple):
            return -oe[1]
        return SNum(self.e - oe)

    def __rsub__(self, o):
        oe = self._bin(o, None)
        if oe is NotImplemented:
            return o - SCplx.of(self) if (_is_complex_like(o)) else NotImplemented
        if isinstance(oe, tuple):
            return oe[1]
        return SNum(oe - self.e)

    def __mul__(self, o):
        oe = self._bin(o, None)
        if oe is NotImplemented:
            return SCplx.of(self) * o if (_is_complex_like(o)) else NotImplemented
        if isinstance(oe, tuple):
            unsupported("symbolic * inf")
        return SNum(self.e * oe)
    __rmul__ = __mul__

    def __truediv__(self, o):
        oe = self._bin(o, None)
        if oe is NotImplemented:
            return SCplx.of(self) / o if (_is_complex_like(o)) else NotImplemented
        if isinstance(oe, tuple):
            if math.isinf(oe[1]):
                return 0.0
            return oe[1]
        a = z3.ToReal(self.e) if self.e.is_int() else self.e
        b = z3.ToReal(oe) if oe.is_int() else oe
        return SNum(a / b)

    def __rtruediv__(self, o):
        oe = self._bin(o, None)
        if oe is NotImplemented:
            return o / SCplx.of(self) if (_is_complex_like(o)) else NotImplemented
        if isinstance(oe, tuple):
            unsupported("inf / symbolic")
        a = z3.ToReal(self.e) if self.e.is_int() else self.e
        b = z3.ToReal(oe) if oe.is_int() else oe
        return SNum(b / a)

    def __floordiv__(self, o):
        oe = self._bin(o, None)
        if oe is NotImplemented or isinstance(oe, tuple):
            return NotImplemented
        if self.e.is_int() and oe.is_int():
            return SNum(py_floordiv_int(self.e, oe))
        k, r = cur().fmod_floor(_real(self.e), _real(oe))
        return SNum(z3.ToReal(k))

    def __rfloordiv__(self, o):
        return SNum(_coerce(o)) // self

    def __mod__(self, o):
        oe = self._bin(o, None)
        if oe is NotImplemented or isinstance(oe, tuple):
            return NotImplemented
        if self.e.is_int() and oe.is_int():
            return SNum(self.e - oe * py_floordiv_int(self.e, oe))
        k, r = cur().fmod_floor(_real(self.e), _real(oe))
        return SNum(r)

    def __rmod__(self, o):
        return SNum(_coerce(o)) % self

    def __neg__(self):
        return SNum(-self.e)

    def __pos__(self):
        return self

    def __abs__(self):
        return SNum(z3.If(self.e >= 0, self.e, -self.e))

    def __pow__(self, k):
        if isinstance(k, SNum):
            v = _numeral(z3.simplify(k.e))
            if v is None:
                cur().uses_uninterpreted = True
                return SNum(POW(_real(self.e), _real(k.e)))
            k = v
        if isinstance(k, numbers.Integral) or (isinstance(k, (float, Fraction)) and float(k).is_integer()):
            n = int(k)
            if abs(n) > 64:
                unsupported("power %d" % n)
            r = None
            for _ in range(abs(n)):
                r = self.e if r is None else r * self.e
            if r is None:
                r = z3.IntVal(1) if self.e.is_int() else z3.RealVal(1)
            if n < 0:
                r = z3.RealVal(1) / _real(r)
            return SNum(r)
        if isinstance(k, (float, Fraction, numbers.Real)):
            q = Fraction(float(k)).limit_denominator(1000)
            if abs(float(q) - float(k)) < 1e-15:
                if q.denominator == 2:
                    s = SNum(cur().sqrt(_real(self.e)))
                    return s ** q.numerator
                if q.denominator == 3:
                    s = SNum(cur().cbrt(_real(self.e)))
                    return s ** q.numerator
        unsupported("power with exponent %r" % (k,))

    def __rpow__(self, base):
        v = _numeral(z3.simplify(self.e))
        if v is not None and v.denominator == 1:
            return base ** int(v)
        if isinstance(base, numbers.Real):
            cur().uses_uninterpreted = True
            return SNum(POW(_rv(base) if not isinstance(base, int) else z3.RealVal(base), _real(self.e)))
        unsupported("%r ** symbolic" % (base,))

    # comparisons -----------------------------------------------------------
    def _cmp(self, o, op):
        if isinstance(o, SCplx) or _is_complex_like(o):
            if op in ('eq', 'ne'):
                r = SCplx.of(self).__eq__(o)
                return r if op == 'eq' else ~r
            return NotImplemented
        try:
            oe = _coerce(o)
        except _Inf as inf:
            v = inf.v
            if math.isnan(v):
                return op == 'ne'
            pos = v > 0
            return {'lt': pos, 'le': pos, 'gt': not pos, 'ge': not pos, 'eq': False, 'ne': True}[op]
        if oe is None:
            if o is None or isinstance(o, str):
                return op == 'ne' if op in ('eq', 'ne') else NotImplemented
            return NotImplemented
        a = self.e
        e = {'lt': a < oe, 'le': a <= oe, 'gt': a > oe, 'ge': a >= oe, 'eq': a == oe, 'ne': a != oe}[op]
        return SBool(e)

    def __lt__(self, o): return self._cmp(o, 'lt')
    def __le__(self, o): return self._cmp(o, 'le')
    def __gt__(self, o): return self._cmp(o, 'gt')
    def __ge__(self, o): return self._cmp(o, 'ge')
    def __eq__(self, o): return self._cmp(o, 'eq')
    def __ne__(self, o): return self._cmp(o, 'ne')

    def __bool__(self):
        return cur().decide(self.e != 0)

    def __float__(self):
        v = _numeral(z3.simplify(self.e))
        if v is not None:
            return float(v)
        unsupported("float() of a symbolic value")

    def __int__(self):
        v = _numeral(z3.simplify(self.e))
        if v is not None:
            return int(v)
        unsupported("int() of a symbolic value")

    def __index__(self):
        v = _numeral(z3.simplify(self.e))
        if v is not None and v.denominator == 1:
            return int(v)
        unsupported("symbolic value used as an index")

    def __round__(self, n=None):
        if n not in (None, 0):
            unsupported("round to digits")
        return SNum(cur().rint(_real(self.e)))

    def __complex__(self):
        unsupported("complex() of a symbolic value")

    # numpy object-dtype ufunc hooks -----------------------------------------
    def sqrt(self):
        return SNum(cur().sqrt(_real(self.e)))

    def cos(self):
        return SNum(cur().cos_sin(_real(self.e))[0])

    def sin(self):
        return SNum(cur().cos_sin(_real(self.e))[1])

    def tan(self):
        c, s = cur().cos_sin(_real(self.e))
        return SNum(s / c)

    def arctan2(self, x):
        if not isinstance(x, SNum):
            x = SNum(_coerce(x))
        return SNum(cur().arctan2(_real(self.e), _real(x.e)))

    def arccos(self):
        return SNum(cur().arccos(_real(self.e)))

    def arcsin(self):
        return SNum(cur().arcsin(_real(self.e)))

    def arctan(self):
        return SNum(cur().arctan2(_real(self.e), z3.RealVal(1)))

    def exp(self):
        return SNum(cur().exp(_real(self.e)))

    def log(self):
        return SNum(cur().log(_real(self.e)))

    def floor(self):
        return SNum(z3.ToReal(cur().floor(_real(self.e)))) if not self.e.is_int() else self

    def ceil(self):
        if self.e.is_int():
            return self
        return SNum(-z3.ToReal(cur().floor(-_real(self.e))))

    def rint(self):
        if self.e.is_int():
            return self
        return SNum(z3.ToReal(cur().rint(_real(self.e))))

    def round(self, n=0):
        return self.rint()

    def conjugate(self):
        return self
    conj = conjugate

    def hypot(self, o):
        return (self * self + o * o).sqrt()

    def square(self):
        return self * self

    def isfinite(self):
        return True

    @property
    def real(self):
        return self

    @property
    def imag(self):
        return SNum(z3.RealVal(0))

    # ndarray-ish scalar attributes used by holopy
    ndim = 0
    shape = ()
    size = 1

    def item(self):
        return self

    def astype(self, t):
        if t in (float, 'float', complex, 'complex', object):
            return self
        unsupported("astype(%r) of a symbolic value" % (t,))

    def copy(self):
        return self

    def __copy__(self):
        return self

    def __deepcopy__(self, memo):
        return self


def _real(e):
    return z3.ToReal(e) if e.is_int() else e


class SBool:
    __slots__ = ('e',)

    def __init__(self, e):
        self.e = e

    def __repr__(self):
        return "SBool(%s)" % (self.e,)

    def __hash__(self):
        return id(self)

    def __bool__(self):
        return cur().decide(self.e)

    def __int__(self):
        return int(bool(self))
    __index__ = __int__

    @staticmethod
    def _c(o):
        if isinstance(o, SBool):
            return o.e
        if isinstance(o, (bool,)) or type(o).__name__ == 'bool_' or type(o).__name__ == 'bool':
            return z3.BoolVal(bool(o))
        return None

    def __and__(self, o):
        oe = self._c(o)
        return NotImplemented if oe is None else SBool(z3.And(self.e, oe))
    __rand__ = __and__

    def __or__(self, o):
        oe = self._c(o)
        return NotImplemented if oe is None else SBool(z3.Or(self.e, oe))
    __ror__ = __or__

    def __xor__(self, o):
        oe = self._c(o)
        return NotImplemented if oe is None else SBool(z3.Xor(self.e, oe))
    __rxor__ = __xor__

    def __invert__(self):
        return SBool(z3.Not(self.e))

    def logical_not(self):
        return ~self

    def __eq__(self, o):
        oe = self._c(o)
        if oe is None:
            return NotImplemented
        return SBool(self.e == oe)

    def __ne__(self, o):
        oe = self._c(o)
        if oe is None:
            return NotImplemented
        return SBool(self.e != oe)

    def __gt__(self, o):
        # (ind > 0) on boolean containment arrays
        if isinstance(o, numbers.Real):
            return SBool(z3.If(self.e, 1, 0) > _coerce(o))
        return NotImplemented

    def __mul__(self, o):
        return SNum(z3.If(self.e, z3.IntVal(1), z3.IntVal(0))) * o
    __rmul__ = __mul__

    def __add__(self, o):
        return SNum(z3.If(self.e, z3.IntVal(1), z3.IntVal(0))) + o
    __radd__ = __add__

    def astype(self, t):
        if t in (int, 'int'):
            return SNum(z3.If(self.e, z3.IntVal(1), z3.IntVal(0)))
        if t in (bool, 'bool'):
            return self
        unsupported("astype(%r) of a symbolic bool" % (t,))

    def __copy__(self):
        return self

    def __deepcopy__(self, memo):
        return self


class SCplx(numbers.Number):
    """symbolic complex number: pair of z3 reals"""
    __slots__ = ('re', 'im')

    def __init__(self, re, im):
        self.re = re
        self.im = im

    def __repr__(self):
        return "SCplx(%s, %s)" % (self.re, self.im)

    def __hash__(self):
        return id(self)

    @staticmethod
    def of(v):
        if isinstance(v, SCplx):
            return v
        if isinstance(v, SNum):
            return SCplx(_real(v.e), z3.RealVal(0))
        if isinstance(v, numbers.Real):
            return SCplx(_real(_coerce(v)), z3.RealVal(0))
        if isinstance(v, numbers.Complex):
            v = complex(v)
            return SCplx(_rv(v.real), _rv(v.imag))
        return None

    def __add__(self, o):
        o = SCplx.of(o)
        if o is None:
            return NotImplemented
        return SCplx(self.re + o.re, self.im + o.im)
    __radd__ = __add__

    def __sub__(self, o):
        o = SCplx.of(o)
        if o is None:
            return NotImplemented
        return SCplx(self.re - o.re, self.im - o.im)

    def __rsub__(self, o):
        o = SCplx.of(o)
        if o is None:
            return NotImplemented
        return SCplx(o.re - self.re, o.im - self.im)

    @staticmethod
    def _real_operand(o):
        """z3 real term if o is a real scalar (symbolic or not), else None"""
        if isinstance(o, SNum):
            return _real(o.e)
        if isinstance(o, SCplx):
            return None
        if isinstance(o, numbers.Real):
            try:
                return _real(_coerce(o))
            except _Inf:
                return None
        return None

    def __mul__(self, o):
        r = self._real_operand(o)
        if r is not None:
            return SCplx(self.re * r, self.im * r)
        o = SCplx.of(o)
        if o is None:
            return NotImplemented
        zero = z3.RealVal(0)
        if z3.eq(o.im, zero):
            return SCplx(self.re * o.re, self.im * o.re)
        if z3.eq(o.re, zero):
            return SCplx(-(self.im * o.im), self.re * o.im)
        if z3.eq(self.im, zero):
            return SCplx(self.re * o.re, self.re * o.im)
        if z3.eq(self.re, zero):
            return SCplx(-(self.im * o.im), self.im * o.re)
        return SCplx(self.re * o.re - self.im * o.im, self.re * o.im + self.im * o.re)
    __rmul__ = __mul__

    def __truediv__(self, o):
        r = self._real_operand(o)
        if r is not None:
            return SCplx(self.re / r, self.im / r)
        o = SCplx.of(o)
        if o is None:
            return NotImplemented
        if z3.eq(o.im, z3.RealVal(0)):
            return SCplx(self.re / o.re, self.im / o.re)
        d = o.re * o.re + o.im * o.im
        return SCplx((self.re * o.re + self.im * o.im) / d, (self.im * o.re - self.re * o.im) / d)

    def __rtruediv__(self, o):
        o = SCplx.of(o)
        if o is None:
            return NotImplemented
        return o / self

    def __neg__(self):
        return SCplx(-self.re, -self.im)

    def __pos__(self):
        return self

    def __abs__(self):
        return SNum(cur().sqrt(self.re * self.re + self.im * self.im, known_nonneg=True))

    def __pow__(self, k):
        if isinstance(k, SNum):
            v = _numeral(z3.simplify(k.e))
            if v is None:
                unsupported("complex ** symbolic")
            k = v
        if isinstance(k, numbers.Real) and float(k).is_integer():
            n = int(k)
            r = SCplx(z3.RealVal(1), z3.RealVal(0))
            for _ in range(abs(n)):
                r = r * self
            if n < 0:
                r = 1 / r
            return r
        unsupported("complex power %r" % (k,))

    def __eq__(self, o):
        o2 = SCplx.of(o)
        if o2 is None:
            return False if (o is None or isinstance(o, str)) else NotImplemented
        return SBool(z3.And(self.re == o2.re, self.im == o2.im))

    def __ne__(self, o):
        r = self.__eq__(o)
        if r is NotImplemented:
            return r
        return (not r) if isinstance(r, bool) else ~r

    def __bool__(self):
        return cur().decide(z3.Or(self.re != 0, self.im != 0))

    def _lex(self, o, strict, greater):
        # numpy orders complex numbers lexicographically (real part first)
        o = SCplx.of(o)
        if o is None:
            return NotImplemented
        a, b = (self, o) if greater else (o, self)
        tail = (a.im > b.im) if strict else (a.im >= b.im)
        return SBool(z3.Or(a.re > b.re, z3.And(a.re == b.re, tail)))

    def __ge__(self, o): return self._lex(o, False, True)
    def __gt__(self, o): return self._lex(o, True, True)
    def __le__(self, o): return self._lex(o, False, False)
    def __lt__(self, o): return self._lex(o, True, False)

    def conjugate(self):
        return SCplx(self.re, -self.im)
    conj = conjugate

    @property
    def real(self):
        return SNum(self.re)

    @property
    def imag(self):
        return SNum(self.im)

    def exp(self):
        p = cur()
        c, s = p.cos_sin(self.im)
        m = p.exp(self.re)
        return SCplx(m * c, m * s)

    def sqrt(self):
        # principal square root of a complex number with zero imaginary part
        if not z3.is_true(z3.simplify(self.im == 0)):
            unsupported("complex sqrt of a value with non-zero imaginary part")
        p = cur()
        re = z3.simplify(self.re)
        return SCplx(p.sqrt(z3.If(re >= 0, re, 0)), p.sqrt(z3.If(re < 0, -re, 0)))

    def square(self):
        return self * self

    def isfinite(self):
        return True

    ndim = 0
    shape = ()
    size = 1

    def item(self):
        return self

    def astype(self, t):
        return self

    def copy(self):
        return self

    def __copy__(self):
        return self

    def __deepcopy__(self, memo):
        return self

    def __complex__(self):
        unsupported("complex() of a symbolic value")


numbers.Real.register(SNum)
numbers.Complex.register(SCplx)


def is_sym(v):
    return isinstance(v, (SNum, SCplx, SBool))


def ite(c, a, b):
    """if-then-else on scalars (symbolic or concrete)"""
    if isinstance(c, SBool):
        ce = z3.simplify(c.e)
        if z3.is_true(ce):
            return a
        if z3.is_false(ce):
            return b
        if isinstance(a, SBool) or isinstance(b, SBool):
            ae, be = SBool._c(a), SBool._c(b)
            return SBool(z3.If(ce, ae, be))
        if isinstance(a, SCplx) or isinstance(b, SCplx) or _is_complex_like(a) or _is_complex_like(b):
            a2, b2 = SCplx.of(a), SCplx.of(b)
            return SCplx(z3.If(ce, a2.re, b2.re), z3.If(ce, a2.im, b2.im))
        ae, be = _coerce(a), _coerce(b)
        if ae.is_int() != be.is_int():
            ae, be = _real(ae), _real(be)
        return SNum(z3.If(ce, ae, be))
    return a if c else b
