"""Contracts on the real functions, path enumeration, VC discharge, replay.

A contract is a Python function `f(c)` that declares inputs (`c.real`, ...),
states preconditions (`c.requires`), calls the *real* function(s) from /repo
(`c.call`) and states named clauses (`c.ensures`).  The same contract text is
run in two modes:

  symbolic  - inputs are SNum/SCplx/SBool, the holopy modules see the numpy
              shim, every feasible path is enumerated, every clause on every
              path is a verification condition  (axioms & path-condition =>
              clause)  discharged by z3 / cvc5 for all inputs;
  concrete  - inputs are floats, holopy is untouched (real numpy), clauses are
              evaluated natively with a relative tolerance.  Used for replaying
              solver counter-models, for the randomised cross-check of the
              engine against CPython, and for --replay.
"""
import hashlib
import inspect
import json
import math
import os
import random
import subprocess
import tempfile
import time
import traceback
import importlib
import numbers
from fractions import Fraction

import numpy as np
import z3

from . import sym, shim
from .sym import SNum, SCplx, SBool, Path, Unsupported, PathBudget, Cut, is_sym

TOL = 1e-7

REGISTRY = {}


class ContractDef:
    def __init__(self, prop, name, targets, fn, **opts):
        self.prop = prop
        self.name = name
        self.targets = list(targets)
        self.fn = fn
        self.max_paths = opts.pop('max_paths', 600)
        self.timeout_ms = opts.pop('timeout_ms', None)
        self.bounded = opts.pop('bounded', None)
        self.samples = opts.pop('samples', None)
        self.lemmas = opts.pop('lemmas', ())
        self.patches = opts.pop('patches', ())
        self.no_crosscheck = opts.pop('no_crosscheck', False)
        # native_only: the clauses are evaluated on sampled native runs only (run-time contract check) - a bounded stand-in, never 'proved'
        self.native_only = opts.pop('native_only', False)
        # native_runs=(quick, thorough): cap on the sampled native runs of a native_only contract whose single run is expensive
        self.native_runs = opts.pop('native_runs', None)
        self.rng_calls = opts.pop('rng_calls', None)
        # values for which `x == literal` tests on symbolic x are assumed false (excluded inputs, listed in the evidence)
        self.skip_eq_literals = tuple(Fraction(v) for v in opts.pop('skip_eq_literals', ()))
        self.tier = opts.pop('tier', 'quick')      # 'thorough': only run by the thorough tier
        self.doc = (fn.__doc__ or '').strip()
        if opts:
            raise TypeError("unknown contract options %r" % (opts,))

    @property
    def ident(self):
        return "%s/%s" % (self.prop, self.name)


def contract(prop, name, targets, **opts):
    def deco(fn):
        cd = ContractDef(prop, name, targets, fn, **opts)
        REGISTRY.setdefault(prop, []).append(cd)
        return fn
    return deco


class Reject(Exception):
    """concrete sample does not satisfy a precondition"""


class Outcome:
    def __init__(self, value=None, exc=None):
        self.value = value
        self.exc = exc

    def raised(self, cls=Exception):
        return self.exc is not None and isinstance(self.exc, cls)

    @property
    def ok(self):
        return self.exc is None


# ------------------------------------------------------------------- helpers
def _is_arr(x):
    return isinstance(x, (np.ndarray, list, tuple)) or shim._is_xr(x)


def _vals(x):
    if shim._is_xr(x):
        return np.asarray(x.values)
    return np.asarray(x, dtype=object) if isinstance(x, (list, tuple)) else x


def _zb(v):
    """clause value -> z3 Bool (symbolic mode)"""
    if isinstance(v, SBool):
        return v.e
    if isinstance(v, (bool, np.bool_)):
        return z3.BoolVal(bool(v))
    if isinstance(v, z3.BoolRef):
        return v
    if isinstance(v, np.ndarray) or isinstance(v, (list, tuple)):
        return z3.And(*[_zb(u) for u in np.asarray(v, dtype=object).flat]) if len(np.asarray(v, dtype=object).flat) else z3.BoolVal(True)
    if shim._is_xr(v):
        return _zb(v.values)
    raise TypeError("clause is not boolean: %r" % (type(v),))


def _num_close(a, b, tol=TOL):
    try:
        if isinstance(a, (bool, np.bool_)) or isinstance(b, (bool, np.bool_)):
            return bool(a) == bool(b)
        if a is None or b is None:
            return a is b
        if isinstance(a, str) or isinstance(b, str):
            return a == b
        a = complex(a) if isinstance(a, numbers.Complex) else a
        b = complex(b) if isinstance(b, numbers.Complex) else b
        if isinstance(a, complex) and isinstance(b, complex):
            if math.isinf(a.real) or math.isinf(b.real):
                return a == b
            if math.isnan(a.real) or math.isnan(b.real) or math.isnan(a.imag) or math.isnan(b.imag):
                return False
            return abs(a - b) <= tol * (1.0 + max(abs(a), abs(b)))
        return a == b
    except (TypeError, ValueError):
        return a == b


class Ctx:
    """dual-mode contract context"""

    def __init__(self, mode, path=None, values=None, rng=None, cdef=None):
        self.mode = mode
        self.path = path
        self.values = dict(values or {})
        self.given = set(self.values)
        self.rng = rng or random.Random(0)
        self.cdef = cdef
        self.obls = []        # symbolic: dict records ; concrete: (name, ok, detail)
        self.notes = {}
        self.declared = []

    @property
    def symbolic(self):
        return self.mode == 'sym'

    # ------------------------------------------------------------- inputs
    def _sample_real(self, lo, hi, nice):
        r = self.rng
        if lo is not None and hi is not None:
            k = r.random()
            if k < 0.15:
                return float(lo)
            if k < 0.3:
                return float(hi)
            return r.uniform(lo, hi)
        if lo is not None:
            return lo + abs(self._sample_real(None, None, nice))
        if hi is not None:
            return hi - abs(self._sample_real(None, None, nice))
        k = r.random()
        if k < 0.3:
            return float(r.choice([-3, -2, -1, 0, 1, 2, 3, 0.5, -0.5, 1.5, 10, -10]))
        if k < 0.8:
            return r.gauss(0, 1.5)
        return r.gauss(0, 1) * 10 ** r.uniform(-3, 3)

    def real(self, name, lo=None, hi=None, pos=False, nonneg=False, nonzero=False, sample=None):
        """sample=(a, b): range used only for native sampling (cross-check / random replay search)"""
        if pos and lo is None:
            lo = 0
        if nonneg and lo is None:
            lo = 0
        self.declared.append(name)
        if self.symbolic:
            k = z3.Real(name)
            self.path.inputs[name] = ('real', k)
            v = SNum(k)
            if lo is not None:
                self.path.assume(k > lo if pos else k >= lo)
            if hi is not None:
                self.path.assume(k <= hi)
            if nonzero:
                self.path.assume(k != 0)
            return v
        if name not in self.values:
            for _ in range(100):
                x = self._sample_real(lo, hi, True) if sample is None else self.rng.uniform(*sample)
                if pos and x <= 0:
                    continue
                if nonzero and x == 0:
                    continue
                break
            self.values[name] = x
        x = float(self.values[name])
        if (lo is not None and (x < lo or (pos and x <= lo))) or (hi is not None and x > hi) or (nonzero and x == 0):
            raise Reject(name)
        return x

    def reals(self, names, **k):
        return [self.real(n, **k) for n in names.split()]

    def angle(self, name, lo=None, hi=None):
        """a real used as an angle (sampled on a few turns)"""
        self.declared.append(name)
        if self.symbolic:
            k = z3.Real(name)
            self.path.inputs[name] = ('angle', k)
            if lo is not None:
                self.path.assume(k >= lo if not isinstance(lo, SNum) else (k >= lo.e))
            if hi is not None:
                self.path.assume(k <= hi if not isinstance(hi, SNum) else (k <= hi.e))
            return SNum(k)
        if name not in self.values:
            a = -2 * math.pi if lo is None else float(lo)
            b = 2 * math.pi if hi is None else float(hi)
            k = self.rng.random()
            if k < 0.3:
                step = math.pi / 6
                n0, n1 = math.ceil(a / step - 1e-12), math.floor(b / step + 1e-12)
                self.values[name] = self.rng.randint(n0, n1) * step
            else:
                self.values[name] = self.rng.uniform(a, b)
        x = float(self.values[name])
        if (lo is not None and x < float(lo) - 1e-12) or (hi is not None and x > float(hi) + 1e-12):
            raise Reject(name)
        return x

    def int(self, name, lo=None, hi=None):
        self.declared.append(name)
        if self.symbolic:
            k = z3.Int(name)
            self.path.inputs[name] = ('int', k)
            if lo is not None:
                self.path.assume(k >= lo)
            if hi is not None:
                self.path.assume(k <= hi)
            return SNum(k)
        if name not in self.values:
            a = -5 if lo is None else lo
            b = (a + 12) if hi is None else hi
            if lo is None and hi is not None:
                a = hi - 12
            self.values[name] = self.rng.randint(a, b)
        x = int(self.values[name])
        if (lo is not None and x < lo) or (hi is not None and x > hi):
            raise Reject(name)
        return x

    def bool(self, name):
        self.declared.append(name)
        if self.symbolic:
            k = z3.Bool(name)
            self.path.inputs[name] = ('bool', k)
            return SBool(k)
        if name not in self.values:
            self.values[name] = self.rng.random() < 0.5
        return bool(self.values[name])

    def complex(self, name):
        self.declared.append(name)
        if self.symbolic:
            re, im = z3.Real(name + '.re'), z3.Real(name + '.im')
            self.path.inputs[name] = ('complex', re, im)
            return SCplx(re, im)
        if name not in self.values:
            self.values[name] = complex(self._sample_real(None, None, True), self._sample_real(None, None, True))
        return complex(self.values[name])

    def choice(self, name, options):
        """finite case split over concrete alternatives (each is explored)"""
        options = list(options)
        self.declared.append(name)
        if self.symbolic:
            k = z3.Int(name)
            self.path.inputs[name] = ('int', k)
            self.path.assume(z3.And(k >= 0, k < len(options)))
            for i in range(len(options) - 1):
                if self.path.decide(k == i):
                    return options[i]
            return options[-1]
        if name not in self.values:
            self.values[name] = self.rng.randrange(len(options))
        i = int(self.values[name])
        if not 0 <= i < len(options):
            raise Reject(name)
        return options[i]

    def vec(self, name, n=3, **k):
        return np.array([self.real("%s%d" % (name, i), **k) for i in range(n)], dtype=object if self.symbolic else float)

    def cvec(self, name, n):
        return np.array([self.complex("%s%d" % (name, i)) for i in range(n)], dtype=object if self.symbolic else complex)

    # -------------------------------------------------------- constants
    @property
    def pi(self):
        return SNum(sym.PI) if self.symbolic else math.pi

    # ------------------------------------------------------------ clauses
    def requires(self, cond):
        if self.symbolic:
            self.path.assume(_zb(cond))
            if self.path.infeasible:
                pass
        else:
            if not self._truth(cond):
                raise Reject('requires')

    assume = requires

    def _truth(self, cond):
        if isinstance(cond, (np.ndarray, list, tuple)):
            return bool(np.all(np.asarray(cond)))
        if shim._is_xr(cond):
            return bool(cond.values.all())
        return bool(cond)

    def ensures(self, name, cond, detail=None):
        if self.symbolic:
            self.obls.append({'name': name, 'kind': 'ensures', 'pc': list(self.path.pc), 'cond': _zb(cond)})
        else:
            self.obls.append((name, self._truth(cond), detail))

    def native_ensures(self, name, thunk, detail=None):
        """a clause that only a native execution can evaluate (file formats, YAML text, numpy's generator): evaluated on every native
        run (cross-check / replay); symbolically it is recorded as a *native* obligation - reported as bounded, never counted as proved"""
        if self.symbolic:
            self.obls.append({'name': name, 'kind': 'native', 'pc': [], 'cond': z3.BoolVal(True)})
        else:
            self.obls.append((name, self._truth(thunk() if callable(thunk) else thunk), detail))

    def canary(self, name, cond):
        """a clause that must NOT be provable (guards against vacuity / an unsound engine)"""
        if self.symbolic:
            self.obls.append({'name': name, 'kind': 'canary', 'pc': list(self.path.pc), 'cond': _zb(cond)})
        else:
            pass

    def note(self, key, value):
        self.notes[key] = value

    # -------------------------------------------------------------- calls
    def call(self, fn, *a, **k):
        return fn(*a, **k)

    def outcome(self, fn, *a, **k):
        try:
            return Outcome(value=fn(*a, **k))
        except (Unsupported, PathBudget, Reject, Cut):
            raise
        except Exception as e:
            if self.symbolic and self.path.unsupported is not None:
                raise Unsupported(self.path.unsupported)
            return Outcome(exc=e)

    def events(self):
        if self.symbolic:
            return list(self.path.events)
        return list(self._events) + [('warn', w.message) for w in getattr(self, '_warnings', None) or []]

    # ------------------------------------------------- dual-mode operators
    def eq(self, a, b, tol=TOL):
        if _is_arr(a) or _is_arr(b):
            av, bv = _vals(a), _vals(b)
            av = np.asarray(av, dtype=object) if not isinstance(av, np.ndarray) else av
            bv = np.asarray(bv, dtype=object) if not isinstance(bv, np.ndarray) else bv
            if av.shape != bv.shape:
                try:
                    av, bv = np.broadcast_arrays(av, bv)
                except ValueError:
                    return False
            out = [self.eq(x, y, tol) for x, y in zip(av.flat, bv.flat)]
            return self.and_(*out)
        if is_sym(a) or is_sym(b):
            if self.symbolic and not isinstance(a, SBool) and not isinstance(b, SBool):
                # equal rational functions are recognised syntactically (canonical form; divisors recorded)
                saved = dict(self.path.divisors)
                try:
                    ca, cb = SCplx.of(a), SCplx.of(b)
                    if ca is not None and cb is not None:
                        dr = sym.canon(ca.re - cb.re, self.path)
                        di = sym.canon(ca.im - cb.im, self.path)
                        if sym._numeral(dr) == 0 and sym._numeral(di) == 0:
                            return True
                        # not syntactically equal as expanded polynomials: compare as single fractions (nested divisions)
                        if sym._denominators(dr) or sym._denominators(di):
                            self.path.divisors.clear()            # drop what canon() looked at; ratfun_zero records its own
                            self.path.divisors.update(saved)
                            if sym.ratfun_zero(ca.re - cb.re, self.path) and sym.ratfun_zero(ca.im - cb.im, self.path):
                                return True
                except Exception:
                    pass
                # the shortcut was not used: do not keep the divisors it looked at
                self.path.divisors.clear()
                self.path.divisors.update(saved)
            r = (a == b)
            if r is NotImplemented:
                return False
            return r
        return _num_close(a, b, tol)

    def le(self, a, b, tol=TOL):
        if is_sym(a) or is_sym(b):
            return a <= b
        return a <= b + tol * (1 + max(abs(a), abs(b)))

    def lt(self, a, b, tol=TOL):
        """strict in the proof; tolerant natively (rounding may turn < into ==)"""
        if is_sym(a) or is_sym(b):
            return a < b
        return a < b + tol * (1 + max(abs(a), abs(b)))

    def ge(self, a, b, tol=TOL):
        return self.le(b, a, tol)

    def gt(self, a, b, tol=TOL):
        return self.lt(b, a, tol)

    def and_(self, *cs):
        cs = [c for c in cs]
        if any(isinstance(c, SBool) for c in cs):
            return SBool(z3.And(*[_zb(c) for c in cs]))
        return all(self._truth(c) for c in cs)

    def or_(self, *cs):
        if any(isinstance(c, SBool) for c in cs):
            return SBool(z3.Or(*[_zb(c) for c in cs]))
        return any(self._truth(c) for c in cs)

    def not_(self, c):
        if isinstance(c, SBool):
            return ~c
        return not self._truth(c)

    def implies(self, p, q):
        if isinstance(p, SBool) or isinstance(q, SBool):
            return SBool(z3.Implies(_zb(p), _zb(q)))
        return (not self._truth(p)) or self._truth(q)

    def iff(self, p, q):
        if isinstance(p, SBool) or isinstance(q, SBool):
            return SBool(_zb(p) == _zb(q))
        return self._truth(p) == self._truth(q)

    def ite(self, c, a, b):
        return sym.ite(c, a, b)

    def truth(self, c):
        """force a decision (forks symbolically)"""
        return bool(c)

    # math usable in specifications (same encodings as the code under proof)
    def sqrt(self, x):
        return x.sqrt() if is_sym(x) else math.sqrt(x)

    def cos(self, x):
        return x.cos() if is_sym(x) else math.cos(x)

    def sin(self, x):
        return x.sin() if is_sym(x) else math.sin(x)

    def exp(self, x):
        if is_sym(x):
            return x.exp()
        return np.exp(x)

    def log(self, x):
        if is_sym(x):
            return x.log()
        return np.log(x)

    def abs(self, x):
        return abs(x)

    def re(self, x):
        return x.real

    def im(self, x):
        return x.imag

    def conj(self, x):
        return x.conjugate() if hasattr(x, 'conjugate') else np.conj(x)

    def max(self, *v):
        return shim.vc_max(*v) if self.symbolic else max(*v)

    def min(self, *v):
        return shim.vc_min(*v) if self.symbolic else min(*v)

    def lemma(self, fact):
        """add a proved lemma instance (from lean/HolopyLemmas.lean) as an axiom"""
        if self.symbolic:
            self.path.axiom(_zb(fact))


# --------------------------------------------------------------- exploration
class PathRun:
    def __init__(self, path, ctx, status, exc=None, tb=None):
        self.path = path
        self.ctx = ctx
        self.status = status
        self.exc = exc
        self.tb = tb


def explore(cdef, max_paths=None, feas_timeout_ms=800):
    max_paths = max_paths or cdef.max_paths
    work = [[]]
    runs = []
    truncated = False
    while work:
        if len(runs) >= max_paths:
            truncated = True
            break
        prefix = work.pop()
        path = Path(prefix, feas_timeout_ms=feas_timeout_ms)
        path.rng_limit = cdef.rng_calls
        path.skip_eq_literals = cdef.skip_eq_literals
        ctx = Ctx('sym', path=path, cdef=cdef)
        sym._CUR[0] = path
        status, exc, tb = 'ok', None, None
        try:
            with shim.patched(cdef.patches):
                cdef.fn(ctx)
        except Cut as e:
            status, exc = 'cut', e
        except (Unsupported, PathBudget) as e:
            status, exc = 'unsupported', e
        except Reject as e:
            status, exc = 'rejected', e
        except RecursionError as e:
            status, exc = 'unsupported', e
        except Exception as e:
            if path.unsupported is not None:
                status, exc = 'unsupported', Unsupported(path.unsupported)
            else:
                status, exc, tb = 'exception', e, traceback.format_exc()
        finally:
            sym._CUR[0] = None
        if status == 'ok' and path.unsupported is not None:
            status, exc = 'unsupported', Unsupported(path.unsupported)
        work.extend(path.alts)
        runs.append(PathRun(path, ctx, status, exc, tb))
    return runs, truncated


# ------------------------------------------------------------------ discharge
def _export_smt2(assertions):
    s = z3.Solver()
    s.add(*assertions)
    return s.to_smt2()


def _cvc5(assertions, timeout_ms):
    txt = _export_smt2(assertions)
    txt = "(set-logic ALL)\n" + "\n".join(l for l in txt.splitlines() if not l.startswith('(set-info')) + "\n"
    with tempfile.NamedTemporaryFile('w', suffix='.smt2', delete=False) as f:
        f.write(txt)
        fn = f.name
    try:
        r = subprocess.run(['/usr/bin/cvc5', '--tlimit=%d' % timeout_ms, '--nl-ext-tplanes', fn],
                           capture_output=True, text=True, timeout=timeout_ms / 1000 + 5)
        out = r.stdout.strip().splitlines()
        return out[0] if out else 'unknown'
    except Exception:
        return 'unknown'
    finally:
        os.unlink(fn)


def _has_int(assertions):
    seen = set()
    stack = list(assertions)
    while stack:
        t = stack.pop()
        if t.get_id() in seen:
            continue
        seen.add(t.get_id())
        if z3.is_expr(t) and t.sort().kind() == z3.Z3_INT_SORT:
            return True
        stack.extend(t.children())
    return False


def _z3_default(assertions, timeout_ms):
    s = z3.Solver()
    s.set('timeout', int(timeout_ms))
    s.set('random_seed', int(os.environ.get('VERIF_SEED', '0') or 0) % (2 ** 31))
    s.add(*assertions)
    r = s.check()
    return r, (s.model() if r == z3.sat else None)


def _z3_nlsat(assertions, timeout_ms):
    try:
        # TryFor: the tactic solver does not honour the 'timeout' parameter reliably (a C02 query ran for 16 minutes)
        t = z3.TryFor(z3.Then('simplify', 'purify-arith', 'solve-eqs', 'qfnra-nlsat'), int(timeout_ms))
        s = t.solver()
        s.set('timeout', int(timeout_ms))
        s.add(*assertions)
        r = s.check()
        return r, (s.model() if r == z3.sat else None)
    except z3.Z3Exception:
        return z3.unknown, None


def _linabs(assertions, timeout_ms):
    """linear abstraction: every real comparison  a ~ b  is rewritten as a linear constraint over the monomials of the fully
    expanded polynomial a - b (sym._poly); a monomial that is a single atom stays that term, any other monomial becomes a
    fresh real (the same one wherever it occurs; >= 0 when all its powers are even).  Every model of the original set gives a
    model of the abstraction, so `unsat` of the abstraction proves `unsat` of the original - PROVIDED the cancellations
    d * (1/d) = 1 made by the expansion are valid, i.e. no denominator is zero: that case is discharged separately.
    Only `unsat` is ever reported from here."""
    mono = {}
    side = []

    def var(m):
        if len(m) == 1 and m[0][1] == 1:
            a = sym._ATOMS[m[0][0]]
            if a.sort().kind() == z3.Z3_REAL_SORT:
                return a
        k = repr(m)
        if k not in mono:
            v = z3.Real('mono!%d' % len(mono))
            mono[k] = v
            if all(pw % 2 == 0 for _, pw in m):
                side.append(v >= 0)
        return mono[k]

    def lin(t):
        p = sym._poly(z3.simplify(t))
        tot = None
        for m in sorted(p, key=repr):
            q = p[m]
            term = sym._rv(q) if m == () else (var(m) if q == 1 else sym._rv(q) * var(m))
            tot = term if tot is None else tot + term
        return tot if tot is not None else z3.RealVal(0)

    cmps = {z3.Z3_OP_LE: lambda x: x <= 0, z3.Z3_OP_LT: lambda x: x < 0, z3.Z3_OP_GE: lambda x: x >= 0, z3.Z3_OP_GT: lambda x: x > 0,
            z3.Z3_OP_EQ: lambda x: x == 0}
    memo = {}

    def tr(f):
        k = f.get_id()
        if k in memo:
            return memo[k]
        out = f
        if z3.is_app(f) and f.sort().kind() == z3.Z3_BOOL_SORT:
            op = f.decl().kind()
            ch = f.children()
            if op in cmps and len(ch) == 2 and ch[0].sort().kind() == z3.Z3_REAL_SORT:
                out = cmps[op](lin(ch[0] - ch[1]))
            elif op == z3.Z3_OP_DISTINCT and len(ch) == 2 and ch[0].sort().kind() == z3.Z3_REAL_SORT:
                out = lin(ch[0] - ch[1]) != 0
            elif op in (z3.Z3_OP_AND, z3.Z3_OP_OR, z3.Z3_OP_NOT, z3.Z3_OP_IMPLIES, z3.Z3_OP_XOR) or \
                    (op in (z3.Z3_OP_EQ, z3.Z3_OP_ITE) and ch[0].sort().kind() == z3.Z3_BOOL_SORT):
                out = f.decl()(*[tr(c) for c in ch])
        memo[k] = out
        return out

    try:
        dens = []
        for a in assertions:
            sym._denominators(a, dens)
        seen, uniq = set(), []
        for d in dens:
            if d.get_id() not in seen:
                seen.add(d.get_id())
                uniq.append(d)
        abstracted = [tr(a) for a in assertions]
        if not mono:
            return z3.unknown, None           # nothing was abstracted: the plain solver has already seen this query
        r, _ = _z3_default(abstracted + side + [tr(d != 0) for d in uniq], timeout_ms)
        if r != z3.unsat:
            return z3.unknown, None
        if uniq:
            r2, _ = _z3_default(list(assertions) + [z3.Or(*[d == 0 for d in uniq])], min(timeout_ms, 5000))
            if r2 != z3.unsat:
                return z3.unknown, None
        return z3.unsat, None
    except (OverflowError, RecursionError, z3.Z3Exception):
        return z3.unknown, None


def solve(assertions, timeout_ms, want_model=True, second=False):
    """-> (result 'unsat'|'sat'|'unknown', model|None, backend, seconds)
    staged: z3 default (short) -> z3 nlsat pipeline -> z3 default (full budget) -> cvc5"""
    t0 = time.time()
    stages = [('z3', _z3_default, min(timeout_ms, 2500))]
    if not os.environ.get('PYVC_NOLINABS'):
        stages.append(('z3-linabs', _linabs, min(timeout_ms, 10000)))
    stages.append(('z3-nlsat', _z3_nlsat, timeout_ms))
    if timeout_ms > 2500:
        stages.append(('z3', _z3_default, timeout_ms))
    for name, f, budget in stages:
        r, m = f(assertions, budget)
        if r == z3.unsat:
            return 'unsat', None, name, time.time() - t0
        if r == z3.sat:
            return 'sat', m, name, time.time() - t0
    c = _cvc5(assertions, timeout_ms)
    if c == 'unsat':
        return 'unsat', None, 'cvc5', time.time() - t0
    return 'unknown', None, 'z3+cvc5', time.time() - t0


def _conjuncts(cond):
    """split  A and B,  P -> (A and B)  into separately discharged goals"""
    if z3.is_and(cond):
        out = []
        for ch in cond.children():
            out.extend(_conjuncts(ch))
        return out
    if z3.is_implies(cond):
        p, q = cond.arg(0), cond.arg(1)
        return [z3.Implies(p, g) for g in _conjuncts(q)]
    if z3.is_or(cond) and cond.num_args() == 2:
        a, b = cond.arg(0), cond.arg(1)
        for u, v in ((a, b), (b, a)):
            if z3.is_and(v):
                return [z3.Or(u, g) for g in _conjuncts(v)]
    return [cond]


class Hyps:
    """hypotheses of a VC: path condition + definitional axioms + lemma instances, with a
    cone-of-influence filter: a definitional axiom is used only if a symbol it defines occurs
    (transitively) in the goal or the path condition; a lemma instance only if all the symbols its
    conclusion relates do.  Dropping hypotheses can only make a VC harder to prove, never unsound;
    a `sat` obtained on the reduced set is re-checked on the full set before it is reported."""

    def __init__(self, path, lemmas, pc=(), facts=()):
        self.path = path
        self.lemmas = lemmas
        self.pc = list(pc)
        self.facts = list(facts)     # clauses already discharged on this path (cut rule)

    def with_pc(self, pc, facts=()):
        return Hyps(self.path, self.lemmas, pc, facts)

    def full(self):
        return list(self.path.ax) + [f for _, f in self.lemmas] + self.pc + self.facts

    def relevant(self, goal):
        S = set(sym.const_names(goal))
        for p in self.pc:
            S |= sym.const_names(p)
        ax = list(zip(self.path.ax_tags, self.path.ax))
        used_ax = [False] * len(ax)
        used_lem = [False] * len(self.lemmas)
        fact_names = [sym.const_names(f) for f in self.facts]
        used_fact = [False] * len(self.facts)
        out = []
        changed = True
        while changed:
            changed = False
            for i, f in enumerate(self.facts):
                if used_fact[i]:
                    continue
                fresh = frozenset(n for n in fact_names[i] if '!' in n)
                if (fresh and fresh <= S) or (not fresh and fact_names[i] <= S):
                    used_fact[i] = True
                    out.append(f)
                    new = fact_names[i] - S
                    if new:
                        S |= new
                        changed = True
            for i, (tag, f) in enumerate(ax):
                if used_ax[i]:
                    continue
                if tag is None or (tag & S):
                    used_ax[i] = True
                    out.append(f)
                    new = sym.const_names(f) - S
                    if new:
                        S |= new
                        changed = True
            for i, (tag, f) in enumerate(self.lemmas):
                if used_lem[i]:
                    continue
                if tag and tag <= S:
                    used_lem[i] = True
                    out.append(f)
                    new = sym.const_names(f) - S
                    if new:
                        S |= new
                        changed = True
        return out + self.pc


def solve_hyps(hyps, goal, timeout_ms):
    if not isinstance(hyps, Hyps):
        return solve(list(hyps) + [z3.Not(goal)], timeout_ms)
    rel = hyps.relevant(goal)
    res, model, b, secs = solve(rel + [z3.Not(goal)], timeout_ms)
    if res == 'sat':
        full = hyps.full()
        if len(full) > len(rel):
            # the reduced set may miss a needed fact: one short attempt on the full set; if that is
            # not conclusive the reduced model stands as a *candidate* (the native replay decides)
            t0 = time.time()
            r2, m2 = _z3_default(full + [z3.Not(goal)], min(timeout_ms, 8000))
            secs += time.time() - t0
            if r2 == z3.unsat:
                return 'unsat', None, 'z3', secs
            if r2 == z3.sat:
                return 'sat', m2, 'z3', secs
    return res, model, b, secs


def canary_solve(hyps, cond):
    """a canary only has to be *not provable*: one short attempt"""
    t0 = time.time()
    rel = hyps.relevant(cond)
    r, m = _z3_default(rel + [z3.Not(cond)], 4000)
    if r == z3.unsat:
        r, m = _z3_default(hyps.full() + [z3.Not(cond)], 4000)   # (cannot become sat; kept for symmetry)
    elif not os.environ.get('PYVC_NOLINABS'):
        # soundness guard for the abstraction stage: it must not "prove" what must not be provable
        r3, _ = _linabs(rel + [z3.Not(cond)], 4000)
        if r3 == z3.unsat:
            return 'unsat', None, 'z3-linabs', time.time() - t0
    return ('unsat' if r == z3.unsat else 'sat' if r == z3.sat else 'unknown'), m, 'z3', time.time() - t0


def solve_split(hyps, cond, timeout_ms):
    """discharge hyps => cond, conjunct by conjunct; the first sat/unknown conjunct decides"""
    goals = _conjuncts(cond)
    if len(goals) == 1:
        return solve_hyps(hyps, cond, timeout_ms)
    total = 0.0
    backend = 'z3'
    unknown = None
    for g in goals:
        res, model, b, secs = solve_hyps(hyps, g, timeout_ms)
        total += secs
        if b != 'z3':
            backend = b
        if res == 'sat':
            return res, model, b, total
        if res == 'unknown':
            unknown = (res, None, b, total)
    if unknown:
        return unknown[0], None, unknown[2], total
    return 'unsat', None, backend, total


def _model_float(m, k):
    v = m.eval(k, model_completion=True)
    if z3.is_int_value(v):
        return v.as_long()
    if z3.is_rational_value(v):
        return float(Fraction(v.numerator_as_long(), v.denominator_as_long()))
    if z3.is_algebraic_value(v):
        a = v.approx(20)
        return float(Fraction(a.numerator_as_long(), a.denominator_as_long()))
    if z3.is_true(v):
        return True
    if z3.is_false(v):
        return False
    try:
        return float(v.as_decimal(17).rstrip('?'))
    except Exception:
        return None


def model_inputs(path, m):
    vals = {}
    for name, rec in path.inputs.items():
        kind = rec[0]
        if kind in ('real', 'int', 'bool'):
            vals[name] = _model_float(m, rec[1])
        elif kind == 'angle':
            k = rec[1]
            a = _model_float(m, k)
            key = z3.simplify(k).sexpr()
            if key in path.atoms:
                _, c, s = path.atoms[key]
                cv, sv = _model_float(m, c), _model_float(m, s)
                if cv is not None and sv is not None:
                    t = math.atan2(sv, cv)
                    if a is not None:
                        t += 2 * math.pi * round((a - t) / (2 * math.pi))
                    a = t
            vals[name] = a
        elif kind == 'complex':
            vals[name] = complex(_model_float(m, rec[1]) or 0.0, _model_float(m, rec[2]) or 0.0)
    return vals


def run_concrete(cdef, values=None, rng=None):
    """native run of the contract on the untouched library.
    -> ('ok', [(clause, ok, detail)], values) | ('rejected', ...) | ('exception', exc, values)"""
    ctx = Ctx('conc', values=values, rng=rng or random.Random(0), cdef=cdef)
    ctx._events = []
    import warnings
    try:
        with warnings.catch_warnings(record=True) as w:
            warnings.simplefilter('always')
            ctx._warnings = w
            with np.errstate(all='ignore'):
                cdef.fn(ctx)
        return 'ok', ctx.obls, ctx.values
    except Reject:
        return 'rejected', [], ctx.values
    except Exception as e:
        return 'exception', e, ctx.values


def _jsonable(v):
    if isinstance(v, complex):
        return {'re': v.real, 'im': v.imag}
    if isinstance(v, (np.floating,)):
        return float(v)
    if isinstance(v, (np.integer,)):
        return int(v)
    if isinstance(v, (np.bool_,)):
        return bool(v)
    return v


def _unjson(v):
    if isinstance(v, dict) and set(v) == {'re', 'im'}:
        return complex(v['re'], v['im'])
    return v


def source_hash(target):
    """sha256 of the source text of module:QualName as it is in /repo now"""
    modname, _, qual = target.partition(':')
    try:
        mod = importlib.import_module(modname)
        obj = mod
        for part in qual.split('.'):
            if part:
                obj = inspect.getattr_static(obj, part) if inspect.isclass(obj) else getattr(obj, part)
        if isinstance(obj, property):
            obj = obj.fget
        if isinstance(obj, (staticmethod, classmethod)):
            obj = obj.__func__
        src = inspect.getsource(obj)
        return hashlib.sha256(src.encode()).hexdigest()[:16]
    except Exception as e:
        return "unresolved:%s" % type(e).__name__


def verify_contract(cdef, tier='quick', seed=0, refuted=None):
    """explore + discharge + replay one contract; returns a plain dict"""
    t_start = time.time()
    timeout_ms = cdef.timeout_ms or (20000 if tier == 'quick' else 120000)
    if refuted:
        # the contract is already violated on a native run (reported with its input): the symbolic run only adds detail,
        # so no VC gets more than a short budget
        timeout_ms = min(timeout_ms, 3000)
    out = {'contract': cdef.ident, 'prop': cdef.prop, 'name': cdef.name, 'targets': cdef.targets,
           'doc': cdef.doc, 'bounded': cdef.bounded, 'obligations': {}, 'paths': 0, 'undecided': [],
           'source_hashes': {t: source_hash(t) for t in cdef.targets},
           'samples': [], 'solver_s': 0.0, 'vcs': 0, 'lemma_uses': []}
    if cdef.native_only:
        # bounded stand-in: no symbolic run; every clause is evaluated on n sampled native executions of the real code
        n = int(os.environ.get('VERIF_CROSS', '25' if tier == 'quick' else '400'))
        if cdef.native_runs:
            n = min(n, cdef.native_runs[0 if tier == 'quick' else 1])
        cc = crosscheck(cdef, n, seed)
        out['bounded'] = (cdef.bounded or '') + " [native sampling only: %d runs, seed %s]" % (cc['runs'], seed)
        for name, cnt in cc['clauses'].items():
            out['obligations'][name] = {'name': "%s/%s" % (cdef.ident, name), 'kind': 'ensures', 'status': 'discharged', 'vcs': cnt,
                                        'backends': {'native-sampling': cnt}, 'solver_s': 0.0, 'detail': None, 'replay': None}
        for f in cc['failures']:
            o = out['obligations'].setdefault(f['clause'], {'name': "%s/%s" % (cdef.ident, f['clause']), 'kind': 'ensures', 'vcs': 1,
                                                             'backends': {'native-sampling': 1}, 'solver_s': 0.0})
            o['status'] = 'violated'
            o['replay'] = {'clause': f['clause'], 'reproduced': True, 'how': 'native-crosscheck', 'inputs': f['inputs'], 'observed': f['observed'],
                           'summary': "clause '%s' fails natively on a sampled input" % f['clause']}
            o['detail'] = o['replay']['summary']
        out['vcs'] = cc['clause_evals']
        out['paths'] = cc['runs']
        out['native_only_stats'] = {k: v for k, v in cc.items() if k != 'failures'}
        if not cc['clauses'] and not cc['failures']:
            out['undecided'].append("native-only contract evaluated no clause")
        out['wall_s'] = time.time() - t_start
        return out
    try:
        runs, truncated = explore(cdef)
    except Exception as e:
        out['crash'] = traceback.format_exc()
        out['wall_s'] = time.time() - t_start
        return out
    out['paths'] = len(runs)
    if cdef.skip_eq_literals:
        out['excluded_inputs'] = ("inputs for which a compared quantity equals exactly %s are excluded "
                                  "(outcome-irrelevant comparison, see the contract's doc)" % (list(map(float, cdef.skip_eq_literals)),))
    if truncated:
        out['undecided'].append("path budget (%d) exhausted" % cdef.max_paths)
    obls = out['obligations']

    def ob(name, kind='ensures'):
        if name not in obls:
            obls[name] = {'name': "%s/%s" % (cdef.ident, name), 'kind': kind, 'status': 'discharged', 'vcs': 0,
                          'backends': {}, 'solver_s': 0.0, 'detail': None, 'replay': None}
        return obls[name]

    seen_vc = set()
    n_ok_paths = 0
    for run in runs:
        path = run.path
        lem = path.lemma_instances()
        if lem:
            out['lemma_instances'] = out.get('lemma_instances', 0) + len(lem)
        hyp_ax = Hyps(path, lem)
        if run.status == 'unsupported':
            out['undecided'].append("unsupported construct on a path: %s" % (run.exc,))
            continue
        if run.status == 'rejected':
            continue
        if run.status == 'cut':
            out['cut_paths'] = out.get('cut_paths', 0) + 1
            continue
        if path.infeasible:
            continue
        n_ok_paths += 1
        records = list(run.ctx.obls)
        if path.divisors:
            # canon() cancelled d * (1/d): every such d must be non-zero under the path condition
            records.insert(0, {'name': 'divisors-nonzero', 'kind': 'ensures', 'pc': list(path.pc),
                               'cond': z3.And(*[d != 0 for d in path.divisors.values()])})
        facts = []          # clauses already discharged on this path: usable as hypotheses of later VCs (cut rule)
        if run.status == 'exception':
            records.append({'name': 'no-unexpected-exception', 'kind': 'ensures', 'pc': list(path.pc),
                            'cond': z3.BoolVal(False), 'exc': run.exc, 'tb': run.tb})
        for rec in records:
            if rec['kind'] == 'native':
                o = ob(rec['name'], 'ensures')
                o['native'] = True
                o['backends'].setdefault('native-sampling', 0)
                continue
            o = ob(rec['name'], rec['kind'])
            cond = z3.simplify(rec['cond'])
            key = (rec['name'], tuple(sorted(p.get_id() for p in rec['pc'])), cond.get_id())
            if key in seen_vc:
                continue
            seen_vc.add(key)
            path.keep.append(cond)
            path.keep.extend(rec['pc'])
            o['vcs'] += 1
            out['vcs'] += 1
            if rec['kind'] == 'canary':
                if o['status'] == 'discharged':
                    o['status'] = 'canary-proved'
                    o['detail'] = 'a clause that must be refutable was proved on every path: vacuous precondition or unsound encoding'
                if o['status'] == 'canary-ok' or z3.is_true(cond):
                    continue
                res, model, backend, secs = canary_solve(hyp_ax.with_pc(rec['pc'], facts), cond)
                o['solver_s'] += secs
                out['solver_s'] += secs
                o['backends'][backend] = o['backends'].get(backend, 0) + 1
                if res != 'unsat':
                    o['status'] = 'canary-ok'
                    o['detail'] = None
                continue
            if z3.is_true(cond):
                o['backends']['simplifier'] = o['backends'].get('simplifier', 0) + 1
                continue
            if os.environ.get('PYVC_TRACE'):
                print("   [vc>] %-40s %s" % (rec['name'], str(cond)[:300].replace('\n', ' ')), flush=True)
            if refuted and rec['name'] in refuted:
                # the clause already fails on a native run: one short attempt (a VC of another path may well hold), no long stages
                res, model, backend, secs = solve_split(hyp_ax.with_pc(rec['pc'], facts), cond, 2500)
                if res != 'unsat':
                    f = refuted[rec['name']]
                    o['solver_s'] += secs
                    out['solver_s'] += secs
                    o['status'] = 'violated'
                    o['replay'] = {'clause': rec['name'], 'reproduced': True, 'how': 'native-crosscheck', 'inputs': f['inputs'],
                                   'observed': f['observed'], 'summary': "clause '%s' fails natively on a cross-check input" % rec['name']}
                    o['detail'] = o['replay']['summary']
                    continue
            else:
                res, model, backend, secs = solve_split(hyp_ax.with_pc(rec['pc'], facts), cond, timeout_ms)
            if os.environ.get('PYVC_TRACE'):
                print("   [vc] %-40s %-8s %-9s %.2fs" % (rec['name'], res, backend, secs), flush=True)
            o['solver_s'] += secs
            out['solver_s'] += secs
            o['backends'][backend] = o['backends'].get(backend, 0) + 1
            if len(out['samples']) < 2:
                try:
                    out['samples'].append({'obligation': o['name'],
                                           'path_condition': [str(p)[:300] for p in rec['pc']][:12],
                                           'clause': str(cond)[:600], 'result': res, 'backend': backend})
                except Exception:
                    pass
            if res == 'unsat':
                if not os.environ.get('PYVC_NOFACTS'):
                    facts.append(cond)
                continue
            if res == 'unknown':
                if o['status'] == 'discharged':
                    o['status'] = 'undecided'
                    o['detail'] = 'solver returned unknown within %d ms' % timeout_ms
                continue
            # sat: candidate violation -> replay natively
            if o['status'] == 'violated' and o['replay'] and o['replay'].get('reproduced'):
                continue
            vals = model_inputs(path, model)
            rep = replay_values(cdef, rec['name'], vals, seed)
            rep['model'] = {k: _jsonable(v) for k, v in vals.items()}
            rep['solver'] = backend
            rep['interpreted_only'] = not path.uses_uninterpreted
            if 'exc' in rec:
                rep['symbolic_exception'] = "%s: %s" % (type(rec['exc']).__name__, rec['exc'])
                rep['symbolic_traceback'] = rec['tb'][-1500:] if rec['tb'] else None
            o['status'] = 'violated'
            o['replay'] = rep
            o['detail'] = rep.get('summary')
    if n_ok_paths == 0 and not out['undecided']:
        out['undecided'].append("no feasible path reached a clause (vacuous contract)")
    # vacuity: at least one completed path must have a satisfiable condition
    out['wall_s'] = time.time() - t_start
    return out


def replay_values(cdef, clause, vals, seed=0, search=400):
    """run the contract natively on the model inputs; if the clause does not
    fail there, search randomly for another failing input"""
    rep = {'clause': clause, 'reproduced': False}
    clean = {k: v for k, v in vals.items() if v is not None}
    st, res, used = run_concrete(cdef, values=clean, rng=random.Random(seed))

    def failing(st, res):
        if st == 'exception':
            return clause == 'no-unexpected-exception' or True, "%s: %s" % (type(res).__name__, res)
        if st == 'ok':
            for name, ok, detail in res:
                if name == clause and not ok:
                    return True, detail
        return False, None
    f, d = failing(st, res)
    if f:
        rep.update(reproduced=True, inputs={k: _jsonable(v) for k, v in used.items()}, how='solver-model',
                   observed=str(d)[:500] if d is not None else None,
                   summary="clause '%s' fails natively on the solver's counter-model" % clause)
        if st == 'exception':
            rep['native_exception'] = str(d)
        return rep
    rng = random.Random(seed + 12345)
    for i in range(search):
        st, res, used = run_concrete(cdef, values=None, rng=rng)
        f, d = failing(st, res)
        if f:
            rep.update(reproduced=True, inputs={k: _jsonable(v) for k, v in used.items()}, how='random-search',
                       observed=str(d)[:500] if d is not None else None,
                       summary="clause '%s' fails natively (input found by seeded random search after the "
                               "solver's model did not reproduce in floating point)" % clause)
            if st == 'exception':
                rep['native_exception'] = str(d)
            return rep
    rep['summary'] = "solver found a counter-model for clause '%s' but no failing native input was found" % clause
    rep['native_status_on_model'] = st if st != 'exception' else 'exception: %s' % (res,)
    return rep


def crosscheck(cdef, n, seed):
    """randomised native evaluation of every clause (engine vs CPython guard and
    run-time contract monitor): returns counts and the first failure"""
    rng = random.Random(seed)
    stats = {'runs': 0, 'rejected': 0, 'clause_evals': 0, 'failures': [], 'clauses': {}}
    tries = 0
    while stats['runs'] < n and tries < n * 20:
        tries += 1
        st, res, used = run_concrete(cdef, rng=rng)
        if st == 'rejected':
            stats['rejected'] += 1
            continue
        stats['runs'] += 1
        if st == 'exception':
            stats['failures'].append({'clause': 'no-unexpected-exception', 'inputs': {k: _jsonable(v) for k, v in used.items()},
                                      'observed': "%s: %s" % (type(res).__name__, res)})
            continue
        for name, ok, detail in res:
            stats['clause_evals'] += 1
            stats['clauses'][name] = stats['clauses'].get(name, 0) + 1
            if not ok and len(stats['failures']) < 5:
                stats['failures'].append({'clause': name, 'inputs': {k: _jsonable(v) for k, v in used.items()},
                                          'observed': str(detail)[:300]})
    return stats
