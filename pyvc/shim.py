"""Library boundary for symbolic runs.

While a contract is executed symbolically, the module-level names `np`
(and `from numpy import ...` names) of every imported `holopy.*` module are
re-bound to the objects below.  The shim delegates to the *real* numpy for
everything it does not list; what it overrides is exactly:

  * constants:          pi -> symbolic pi
  * float constructors: zeros/ones/empty/full/*_like/linspace/arange/eye give
                        object-dtype arrays (so symbolic scalars can be stored;
                        dtype width is dropped - reals are mathematical)
  * scalar functions:   sqrt sin cos tan exp log arctan2 arccos arcsin arctan
                        floor ceil rint round abs conj real imag hypot square
                        sign -> the sym.py encodings, elementwise
  * predicates:         isscalar isfinite isnan iscomplex(type-based for
                        symbolic values) any all logical_and/or/not
  * selections:         max min amax amin maximum minimum where(c, a, b) ->
                        if-then-else terms instead of branch points
  * linalg.norm, random.* (scripted symbolic draws), fft.* (opaque linear maps)

Everything else (array, reshape, dot, sum, mean, append, concatenate, repeat,
roll, indexing, broadcasting ...) is real numpy acting on object arrays.
Builtins max/min/abs/float/int/round are shadowed in the same modules by
symbolic-aware versions.
"""
import builtins
import numbers
import sys
import types
import contextlib

import numpy as _np
import z3

from . import sym
from .sym import SNum, SCplx, SBool, is_sym, ite, unsupported


def _is_xr(x):
    return type(x).__name__ in ('DataArray', 'Variable') and hasattr(x, 'dims')


def has_sym(x):
    if is_sym(x):
        return True
    if isinstance(x, GenArr):
        return True
    if isinstance(x, _np.ndarray):
        if x.dtype != object:
            return False
        return any(is_sym(v) or isinstance(v, GenArr) or (isinstance(v, _np.ndarray) and has_sym(v)) for v in x.flat)
    if _is_xr(x):
        return has_sym(x.values)
    if isinstance(x, (list, tuple)):
        return any(has_sym(v) for v in x)
    return False


def concretize(x):
    """object array without symbolic members -> numeric array"""
    if isinstance(x, _np.ndarray) and x.dtype == object and not has_sym(x):
        for t in (float, complex):
            try:
                return x.astype(t)
            except (TypeError, ValueError):
                pass
    if isinstance(x, (list, tuple)) and not has_sym(x):
        return x
    return x


class GenArr:
    """placeholder, replaced by genarr.GenArr when that module is loaded"""


def _emap(f, *args):
    """elementwise map over (broadcast) arguments; keeps xarray wrappers"""
    xrs = [a for a in args if _is_xr(a)]
    if xrs:
        import xarray as xr
        return xr.apply_ufunc(lambda *v: _emap(f, *v), *args, keep_attrs=True)
    if all(not isinstance(a, (_np.ndarray, list, tuple)) for a in args):
        return f(*args)
    arrs = [_np.asarray(a, dtype=object) if isinstance(a, (list, tuple)) else a for a in args]
    out = _np.frompyfunc(f, len(args), 1)(*arrs)
    if isinstance(out, _np.ndarray):
        return out
    # all array arguments were 0-d: numpy would return a numpy scalar here; keep array-ness so that
    # later comparisons / masks behave as they do on numpy scalars
    wrapped = _np.empty((), dtype=object)
    wrapped[()] = out
    return wrapped


def _unary(name, real_name=None):
    real_f = getattr(_np, real_name or name)

    def f(x, *a, **k):
        if not has_sym(x):
            return real_f(concretize(x), *a, **k)

        def one(v):
            if isinstance(v, _np.ndarray) and v.ndim == 0:
                v = v.item()
            if is_sym(v) or isinstance(v, GenArr):
                return getattr(v, name)()
            if isinstance(v, _np.ndarray):
                return f(v)
            return real_f(v)
        return _emap(one, x)
    f.__name__ = name
    return f


def _np_abs(x, *a, **k):
    if not has_sym(x):
        return _np.abs(concretize(x), *a, **k)
    return _emap(lambda v: abs(v), x)


def _np_real(x):
    if not has_sym(x):
        return _np.real(concretize(x))
    return _emap(lambda v: v.real if is_sym(v) else _np.real(v), x)


def _np_imag(x):
    if not has_sym(x):
        return _np.imag(concretize(x))
    return _emap(lambda v: v.imag if is_sym(v) else _np.imag(v), x)


def _np_conj(x):
    if not has_sym(x):
        return _np.conj(concretize(x))
    return _emap(lambda v: v.conjugate() if is_sym(v) else _np.conj(v), x)


def _np_arctan2(y, x):
    if not has_sym(y) and not has_sym(x):
        return _np.arctan2(concretize(y), concretize(x))

    def one(a, b):
        if not is_sym(a):
            a = SNum(sym._coerce(a))
        return a.arctan2(b)
    return _emap(one, y, x)


def _np_hypot(a, b):
    if not has_sym(a) and not has_sym(b):
        return _np.hypot(concretize(a), concretize(b))
    return _np_sqrt(a * a + b * b)


def _np_isscalar(x):
    if is_sym(x):
        return True
    return _np.isscalar(x)


def _np_isfinite(x):
    if not has_sym(x):
        return _np.isfinite(concretize(x))
    return _emap(lambda v: True if is_sym(v) else bool(_np.isfinite(v)), x)


def _np_isnan(x):
    if not has_sym(x):
        return _np.isnan(concretize(x))
    return _emap(lambda v: False if is_sym(v) else bool(_np.isnan(v)), x)


def _np_iscomplex(x):
    if not has_sym(x):
        return _np.iscomplex(concretize(x))
    r = _emap(lambda v: isinstance(v, SCplx) if is_sym(v) else bool(_np.iscomplex(v)), x)
    if isinstance(r, _np.ndarray):
        return r.astype(bool)
    return r


def _flat(x):
    if isinstance(x, _np.ndarray):
        return list(x.flat)
    if _is_xr(x):
        return list(x.values.flat)
    if isinstance(x, (list, tuple)):
        out = []
        for v in x:
            out.extend(_flat(v))
        return out
    return [x]


def _as_sbool(v):
    if isinstance(v, SBool):
        return v.e
    if isinstance(v, SNum):
        return v.e != 0
    return z3.BoolVal(bool(v))


def _np_any(x, *a, **k):
    if isinstance(x, SBool):
        return x
    if not has_sym(x) or a or k:
        return _np.any(x, *a, **k)
    return SBool(z3.simplify(z3.Or(*[_as_sbool(v) for v in _flat(x)])))


def _np_all(x, *a, **k):
    if isinstance(x, SBool):
        return x
    if not has_sym(x) or a or k:
        return _np.all(x, *a, **k)
    return SBool(z3.simplify(z3.And(*[_as_sbool(v) for v in _flat(x)])))


def _fold(vals, pick):
    it = iter(vals)
    acc = next(it)
    for v in it:
        acc = pick(acc, v)
    return acc


def vc_max2(a, b):
    # Python's max(a, b): b if b > a else a
    if is_sym(a) or is_sym(b):
        return ite(b > a, b, a)
    return builtins.max(a, b)


def vc_min2(a, b):
    if is_sym(a) or is_sym(b):
        return ite(b < a, b, a)
    return builtins.min(a, b)


def _np_max(x, axis=None, **k):
    if isinstance(x, GenArr):
        return x.max()
    if not has_sym(x):
        return _np.max(concretize(x), axis=axis, **k)
    if axis is not None:
        arr = _np.asarray(x, dtype=object)
        return _np.apply_along_axis(lambda v: _fold(list(v), vc_max2), axis, arr)
    return _fold(_flat(x), vc_max2)


def _np_min(x, axis=None, **k):
    if isinstance(x, GenArr):
        return x.min()
    if not has_sym(x):
        return _np.min(concretize(x), axis=axis, **k)
    if axis is not None:
        arr = _np.asarray(x, dtype=object)
        return _np.apply_along_axis(lambda v: _fold(list(v), vc_min2), axis, arr)
    return _fold(_flat(x), vc_min2)


def _np_maximum(a, b):
    if not has_sym(a) and not has_sym(b):
        return _np.maximum(concretize(a), concretize(b))
    return _emap(lambda u, v: ite(u >= v, u, v) if (is_sym(u) or is_sym(v)) else builtins.max(u, v), a, b)


def _np_minimum(a, b):
    if not has_sym(a) and not has_sym(b):
        return _np.minimum(concretize(a), concretize(b))
    return _emap(lambda u, v: ite(u <= v, u, v) if (is_sym(u) or is_sym(v)) else builtins.min(u, v), a, b)


def _np_where(c, *ab):
    if not ab or not has_sym(c):
        return _np.where(c, *ab)
    a, b = ab
    return _emap(lambda cc, u, v: ite(cc, u, v) if isinstance(cc, SBool) else (u if cc else v), c, a, b)


def _np_logical_and(a, b):
    if not has_sym(a) and not has_sym(b):
        return _np.logical_and(a, b)
    return _emap(lambda u, v: SBool(z3.And(_as_sbool(u), _as_sbool(v))), a, b)


def _np_logical_or(a, b):
    if not has_sym(a) and not has_sym(b):
        return _np.logical_or(a, b)
    return _emap(lambda u, v: SBool(z3.Or(_as_sbool(u), _as_sbool(v))), a, b)


def _np_logical_not(a):
    if not has_sym(a):
        return _np.logical_not(a)
    return _emap(lambda u: SBool(z3.Not(_as_sbool(u))), a)


def _np_sign(x):
    if not has_sym(x):
        return _np.sign(concretize(x))
    return _emap(lambda v: ite(v > 0, 1, ite(v < 0, -1, 0)) if is_sym(v) else _np.sign(v), x)


def _np_round(x, decimals=0, **k):
    if not has_sym(x):
        return _np.round(concretize(x), decimals, **k)
    if decimals != 0:
        unsupported("round to decimals")
    return _emap(lambda v: v.rint() if is_sym(v) else _np.round(v), x)


def _objectify(a):
    if isinstance(a, _np.ndarray) and a.dtype.kind in 'fc':
        return a.astype(object)
    return a


def _ctor(name):
    real_f = getattr(_np, name)

    def f(*a, **k):
        dt = k.get('dtype', None)
        if len(a) >= 2 and name in ('zeros', 'ones', 'empty') and not isinstance(a[1], str) and a[1] is not None:
            dt = a[1]
        if name == 'full' and has_sym(a[1] if len(a) > 1 else k.get('fill_value')):
            shape = a[0]
            fill = a[1] if len(a) > 1 else k.get('fill_value')
            out = _np.empty(shape, dtype=object)
            if isinstance(fill, _np.ndarray):
                out[...] = fill
            else:
                out.fill(fill)
            return out
        if name in ('zeros_like', 'ones_like', 'full_like') and has_sym(a[0]):
            base = a[0]
            vals = base.values if _is_xr(base) else _np.asarray(base, dtype=object)
            fillv = {'zeros_like': 0.0, 'ones_like': 1.0}.get(name, a[1] if len(a) > 1 else None)
            if dt in (int, 'int', bool, 'bool'):
                return real_f(_np.zeros(vals.shape), *a[1:], **k)
            out = _np.empty(vals.shape, dtype=object)
            out.fill(fillv)
            if _is_xr(base):
                return base.copy(data=out)
            return out
        if any(has_sym(v) for v in a) or any(has_sym(v) for v in k.values()):
            return _sym_ctor(name, a, k)
        if dt in (vc_float, vc_complex):
            k = dict(k, dtype=object)
            if len(a) >= 2 and name in ('zeros', 'ones', 'empty'):
                a = a[:1] + a[2:]
        elif dt is vc_int:
            k = dict(k, dtype=builtins.int)
            if len(a) >= 2 and name in ('zeros', 'ones', 'empty'):
                a = a[:1] + a[2:]
        out = real_f(*a, **k)
        if name in ('zeros', 'ones', 'empty', 'zeros_like', 'ones_like') and \
                dt in (None, float, complex, 'float', 'complex', object):
            # arrays that are typically filled by item assignment must be able to hold symbolic scalars
            return _objectify(out)
        return out
    f.__name__ = name
    return f


def _sym_ctor(name, a, k):
    if name == 'linspace':
        start, stop = a[0], a[1]
        num = a[2] if len(a) > 2 else k.get('num', 50)
        endpoint = k.get('endpoint', True)
        num = int(num)
        div = (num - 1) if endpoint else num
        out = _np.empty(num, dtype=object)
        for i in range(num):
            out[i] = start + (stop - start) * i / div if div else start
        return out
    if name == 'arange':
        unsupported("arange with symbolic bounds")
    unsupported("%s with symbolic arguments" % name)


def _unwrap0d(x):
    """a list / tuple holding 0-d object arrays: numpy would splice a 0-d numeric array in as a scalar, but keeps a 0-d OBJECT
    array as an element; restore the numeric behaviour"""
    if isinstance(x, (list, tuple)):
        return type(x)(_unwrap0d(v) for v in x) if not hasattr(x, '_fields') else x
    if isinstance(x, _np.ndarray) and x.ndim == 0 and x.dtype == object:
        return x.item()
    return x


def _np_array(x, *a, **k):
    x = _unwrap0d(x)
    dt = k.get('dtype', a[0] if a else None)
    if has_sym(x) and dt not in (None, object):
        k.pop('dtype', None)
        return _np.array(x, dtype=object, **{kk: vv for kk, vv in k.items() if kk != 'dtype'})
    if isinstance(x, GenArr):
        return x
    return _np.array(x, *a, **k)


def _np_asarray(x, *a, **k):
    x = _unwrap0d(x)
    dt = k.get('dtype', a[0] if a else None)
    if has_sym(x) and dt not in (None, object):
        return _np.asarray(x, dtype=object)
    if isinstance(x, GenArr):
        return x
    return _np.asarray(x, *a, **k)


def _np_size(x, *a):
    if is_sym(x):
        return 1
    if isinstance(x, GenArr):
        return x.size
    return _np.size(x, *a)


def _np_sum(x, *a, **k):
    if isinstance(x, GenArr):
        return x.sum(*a, **k)
    return _np.sum(x, *a, **k)


def _np_mean(x, *a, **k):
    if isinstance(x, GenArr):
        return x.mean(*a, **k)
    return _np.mean(x, *a, **k)


def _np_ones_times(x):
    return x


class _Linalg:
    def __getattr__(self, name):
        return getattr(_np.linalg, name)

    @staticmethod
    def norm(x, *a, **k):
        if not has_sym(x):
            return _np.linalg.norm(concretize(x), *a, **k)
        axis = k.pop('axis', None)
        if axis is not None and not a and not k:
            arr = _np.asarray(x, dtype=object)
            sq = (arr * arr).sum(axis=axis)
            return _np_sqrt(sq)
        if a or k:
            unsupported("linalg.norm with options on symbolic input")
        tot = 0
        for v in _flat(x):
            av = abs(v)
            tot = tot + av * av
        return _np_sqrt(tot)


def _root_of_unity(n, k, inverse):
    """exp(-+2 pi i k/n) exactly, for n in 1, 2, 3, 4, 6"""
    from fractions import Fraction
    k = k % n
    sgn = 1 if inverse else -1
    q = Fraction(k, n)          # fraction of a turn
    h = SNum(sym.cur().sqrt(z3.RealVal(3)))    # sqrt(3)
    table = {Fraction(0): (1, 0), Fraction(1, 2): (-1, 0), Fraction(1, 4): (0, 1), Fraction(3, 4): (0, -1),
             Fraction(1, 3): (Fraction(-1, 2), h / 2), Fraction(2, 3): (Fraction(-1, 2), -h / 2),
             Fraction(1, 6): (Fraction(1, 2), h / 2), Fraction(5, 6): (Fraction(1, 2), -h / 2)}
    if q not in table:
        unsupported("DFT of length %d is outside the modelled sizes (1, 2, 3, 4, 6)" % n)
    c, s_ = table[q]
    re = c if is_sym(c) else SNum(sym._rv(c) if not isinstance(c, int) else z3.RealVal(c))
    im = s_ if is_sym(s_) else SNum(sym._rv(s_) if not isinstance(s_, int) else z3.RealVal(s_))
    return SCplx(sym._real(re.e), sym._real((im * sgn).e))


def _dft1(vec, inverse):
    n = len(vec)
    out = _np.empty(n, dtype=object)
    for j in range(n):
        acc = SCplx(z3.RealVal(0), z3.RealVal(0))
        for k in range(n):
            acc = acc + _root_of_unity(n, j * k, inverse) * vec[k]
        out[j] = acc / n if inverse else acc
        out[j] = SCplx(z3.simplify(out[j].re), z3.simplify(out[j].im))
    return out


class _FFT:
    """np.fft on small object arrays: the exact discrete Fourier transform (lengths 1, 2, 3, 4, 6);
    fftshift / ifftshift / fftfreq are real numpy"""

    def __getattr__(self, name):
        return getattr(_np.fft, name)

    @staticmethod
    def _along(a, axis, inverse):
        return _np.apply_along_axis(lambda v: _dft1(list(v), inverse), axis, _np.asarray(a, dtype=object))

    @classmethod
    def _nd(cls, a, axes, inverse, real_f):
        if not has_sym(a):
            return real_f(concretize(a), axes=axes) if axes is not None else real_f(concretize(a))
        a = _np.asarray(a, dtype=object)
        if axes is None:
            axes = (-2, -1) if real_f in (_np.fft.fft2, _np.fft.ifft2) else (-1,)
        for ax in axes:
            a = cls._along(a, ax, inverse)
        return a

    @classmethod
    def fft2(cls, a, s=None, axes=(-2, -1)):
        return cls._nd(a, axes, False, _np.fft.fft2)

    @classmethod
    def ifft2(cls, a, s=None, axes=(-2, -1)):
        return cls._nd(a, axes, True, _np.fft.ifft2)

    @classmethod
    def fft(cls, a, n=None, axis=-1):
        if not has_sym(a):
            return _np.fft.fft(concretize(a), axis=axis)
        return cls._along(a, axis, False)

    @classmethod
    def ifft(cls, a, n=None, axis=-1):
        if not has_sym(a):
            return _np.fft.ifft(concretize(a), axis=axis)
        return cls._along(a, axis, True)


def _np_allclose(a, b, *x, **k):
    """np.allclose is an approximation of equality: exact equality over the reals"""
    if not has_sym(a) and not has_sym(b):
        return _np.allclose(concretize(a), concretize(b), *x, **k)
    av, bv = _np.broadcast_arrays(_np.asarray(a, dtype=object), _np.asarray(b, dtype=object))
    conds = []
    for u, v in zip(av.flat, bv.flat):
        r = (u == v)
        conds.append(_as_sbool(r) if not isinstance(r, SBool) else r.e)
    return SBool(z3.simplify(z3.And(*conds)))


def _np_isclose(a, b, rtol=1e-05, atol=1e-08, equal_nan=False):
    """numpy's definition: |a - b| <= atol + rtol * |b|"""
    if not has_sym(a) and not has_sym(b):
        return _np.isclose(concretize(a), concretize(b), rtol=rtol, atol=atol, equal_nan=equal_nan)
    return _emap(lambda u, v: abs(u - v) <= atol + rtol * abs(v), a, b)


class _Random:
    """scripted symbolic draws: every call returns fresh symbols constrained to
    the documented range of the numpy function (nothing about distribution)"""

    def __getattr__(self, name):
        def f(*a, **k):
            unsupported("np.random.%s in a symbolic run" % name)
        return f

    @staticmethod
    def seed(*a, **k):
        p = sym.cur()
        p.event('random.seed', a)

    @staticmethod
    def _draws(base, size):
        p = sym.cur()
        p.rng_calls += 1
        if p.rng_limit is not None and p.rng_calls > p.rng_limit:
            raise sym.Cut("more than %d random draw calls on one path" % p.rng_limit)
        if size is None:
            return SNum(p.fresh(base))
        n = int(size) if not isinstance(size, (tuple, list)) else int(_np.prod(size))
        out = _np.empty(n, dtype=object)
        for i in range(n):
            out[i] = SNum(p.fresh(base))
        return out.reshape(size) if isinstance(size, (tuple, list)) else out

    @classmethod
    def uniform(cls, low=0.0, high=1.0, size=None):
        d = cls._draws('uniform', size)
        p = sym.cur()
        for v in _flat(d):
            p.assume(v >= low)
            p.assume(v < high)
        p.event('random.uniform', low, high, size)
        p.event('draws', d)
        return d

    @classmethod
    def normal(cls, loc=0.0, scale=1.0, size=None):
        d = cls._draws('normal', size)
        sym.cur().event('random.normal', loc, scale, size)
        sym.cur().event('draws', d)
        return d

    @classmethod
    def randn(cls, *shape):
        return cls._draws('normal', shape if shape else None)

    scripted_choice = None     # set by a contract: the selection np.random.choice returns on this run (any selection is a legal draw)

    @classmethod
    def choice(cls, a, size=None, replace=True, p=None):
        if cls.scripted_choice is None:
            unsupported("np.random.choice in a symbolic run without a scripted selection")
        sel = _np.array(cls.scripted_choice)
        n = int(a) if _np.ndim(a) == 0 else len(a)
        if (size is not None and len(sel) != int(size)) or (len(sel) and (sel.max() >= n or sel.min() < 0)) or \
                (not replace and len(set(sel.tolist())) != len(sel)):
            unsupported("scripted selection %r is not a legal draw of choice(%r, %r, replace=%r)" % (cls.scripted_choice, a, size, replace))
        sym.cur().event('random.choice', a, size, replace)
        return sel


_np_sqrt = _unary('sqrt')

OVERRIDES = {
    'sqrt': _np_sqrt,
    'sin': _unary('sin'), 'cos': _unary('cos'), 'tan': _unary('tan'),
    'exp': _unary('exp'), 'log': _unary('log'),
    'arccos': _unary('arccos'), 'arcsin': _unary('arcsin'), 'arctan': _unary('arctan'),
    'floor': _unary('floor'), 'ceil': _unary('ceil'), 'rint': _unary('rint'),
    'square': _unary('square'),
    'arctan2': _np_arctan2, 'hypot': _np_hypot,
    'abs': _np_abs, 'absolute': _np_abs, 'fabs': _np_abs,
    'real': _np_real, 'imag': _np_imag, 'conj': _np_conj, 'conjugate': _np_conj,
    'isscalar': _np_isscalar, 'isfinite': _np_isfinite, 'isnan': _np_isnan,
    'iscomplex': _np_iscomplex,
    'any': _np_any, 'all': _np_all,
    'max': _np_max, 'amax': _np_max, 'min': _np_min, 'amin': _np_min,
    'maximum': _np_maximum, 'minimum': _np_minimum, 'where': _np_where,
    'logical_and': _np_logical_and, 'logical_or': _np_logical_or,
    'logical_not': _np_logical_not,
    'sign': _np_sign, 'round': _np_round, 'around': _np_round,
    'zeros': _ctor('zeros'), 'ones': _ctor('ones'), 'empty': _ctor('empty'),
    'full': _ctor('full'), 'zeros_like': _ctor('zeros_like'),
    'ones_like': _ctor('ones_like'), 'linspace': _ctor('linspace'),
    'arange': _ctor('arange'), 'eye': _ctor('eye'), 'identity': _ctor('identity'),
    'array': _np_array, 'asarray': _np_asarray, 'size': _np_size,
    'sum': _np_sum, 'mean': _np_mean, 'allclose': _np_allclose, 'isclose': _np_isclose,
}


class NpShim(types.ModuleType):
    def __init__(self):
        super().__init__('numpy')
        self.__dict__.update(OVERRIDES)
        self.__dict__['linalg'] = _Linalg()
        self.__dict__['random'] = _Random()
        self.__dict__['fft'] = _FFT()

    @property
    def pi(self):
        return SNum(sym.PI)

    def __getattr__(self, name):
        if name == 'pi':
            return SNum(sym.PI)
        return getattr(_np, name)


NP = NpShim()


# -------------------------------------------------------------------- builtins
def vc_max(*a, **k):
    if len(a) == 1 and not k:
        vals = list(a[0])
    else:
        vals = list(a)
    if k or not any(is_sym(v) for v in vals):
        return builtins.max(*a, **k)
    return _fold(vals, vc_max2)


def vc_min(*a, **k):
    if len(a) == 1 and not k:
        vals = list(a[0])
    else:
        vals = list(a)
    if k or not any(is_sym(v) for v in vals):
        return builtins.min(*a, **k)
    return _fold(vals, vc_min2)


class _ShadowMeta(type):
    """builtin-type shadows stay usable as types (isinstance, dtype=...) while the
    constructor call is symbolic-aware"""

    def __instancecheck__(cls, inst):
        return isinstance(inst, cls.__mro__[1])

    def __subclasscheck__(cls, sub):
        return issubclass(sub, cls.__mro__[1])

    def __call__(cls, *a, **k):
        return cls._impl(*a, **k)


def _float_impl(x=0.0):
    if is_sym(x):
        return x
    if isinstance(x, _np.ndarray) and x.dtype == object and x.size == 1:
        return _float_impl(x.item())
    if _is_xr(x) and x.size == 1 and has_sym(x):
        return x.values.item()
    return builtins.float(x)


def _int_impl(x=0, *a):
    if isinstance(x, SNum):
        if x.is_int:
            return x
        v = sym._numeral(z3.simplify(x.e))
        if v is not None:
            return builtins.int(v)
        # truncation toward zero
        fl = sym.cur().floor(x.e)
        cl = -sym.cur().floor(-x.e)
        return SNum(z3.If(x.e >= 0, fl, cl))
    if isinstance(x, SBool):
        return SNum(z3.If(x.e, z3.IntVal(1), z3.IntVal(0)))
    if isinstance(x, _np.ndarray) and x.dtype == object and x.size == 1:
        return _int_impl(x.item())
    return builtins.int(x, *a)


def _complex_impl(*a):
    if any(is_sym(v) for v in a):
        if len(a) == 1:
            return SCplx.of(a[0])
        return SCplx.of(a[0]) + SCplx.of(a[1]) * 1j
    return builtins.complex(*a)


class vc_float(builtins.float, metaclass=_ShadowMeta):
    _impl = staticmethod(_float_impl)


class vc_int(builtins.int, metaclass=_ShadowMeta):
    _impl = staticmethod(_int_impl)


class vc_complex(builtins.complex, metaclass=_ShadowMeta):
    _impl = staticmethod(_complex_impl)


def vc_round(x, n=None):
    if is_sym(x):
        return x.__round__(n)
    return builtins.round(x, n) if n is not None else builtins.round(x)


def vc_abs(x):
    return builtins.abs(x)


import warnings as _warnings


class _WarnShim(types.ModuleType):
    """warnings.warn is an observable event of the path (so 'warns iff ...' clauses can be stated)"""

    def __init__(self):
        super().__init__('warnings')

    def __getattr__(self, name):
        return getattr(_warnings, name)

    @staticmethod
    def warn(message, *a, **k):
        sym.cur().event('warn', message)


WARN = _WarnShim()

BUILTIN_SHADOWS = {'max': vc_max, 'min': vc_min, 'float': vc_float, 'int': vc_int,
                   'round': vc_round, 'complex': vc_complex}

_EXTRA_PATCHES = []   # (module name, attr, symbolic replacement) registered by contracts


def register_patch(modname, attr, replacement):
    _EXTRA_PATCHES.append((modname, attr, replacement))


@contextlib.contextmanager
def patched(extra=()):
    """re-bind numpy names in every loaded holopy module (symbolic runs only)"""
    saved = []
    missing = object()
    try:
        for modname, mod in list(sys.modules.items()):
            if mod is None or not (modname == 'holopy' or modname.startswith('holopy.')):
                continue
            if '.tests' in modname:
                continue
            d = mod.__dict__
            for name, val in list(d.items()):
                new = missing
                if val is _np:
                    new = NP
                elif val is _warnings:
                    new = WARN
                elif val is _warnings.warn:
                    new = WARN.warn
                elif val is _np.linalg:
                    new = NP.linalg
                elif val is _np.random:
                    new = NP.random
                elif val is _np.fft:
                    new = NP.fft
                elif name == 'pi' and isinstance(val, float) and val == _np.pi:
                    new = SNum(sym.PI)
                elif callable(val) and getattr(val, '__name__', None) in OVERRIDES \
                        and getattr(_np, getattr(val, '__name__', ''), None) is val:
                    new = OVERRIDES[val.__name__]
                if new is not missing:
                    saved.append((d, name, val))
                    d[name] = new
            for name, f in BUILTIN_SHADOWS.items():
                if name not in d:
                    saved.append((d, name, missing))
                    d[name] = f
        from . import models as _models
        for modname, attr, repl in list(_models.XARRAY_PATCHES) + list(_EXTRA_PATCHES) + list(extra):
            mod = sys.modules.get(modname)
            if mod is None:
                __import__(modname)
                mod = sys.modules[modname]
            obj = mod
            parts = attr.split('.')
            for p in parts[:-1]:
                obj = getattr(obj, p)
            old = obj.__dict__.get(parts[-1], missing) if hasattr(obj, '__dict__') else getattr(obj, parts[-1], missing)
            saved.append((obj, parts[-1], old, 'attr'))
            setattr(obj, parts[-1], repl)
        yield
    finally:
        for rec in reversed(saved):
            if len(rec) == 4:
                obj, name, old, _ = rec
                if old is missing:
                    try:
                        delattr(obj, name)
                    except AttributeError:
                        pass
                else:
                    setattr(obj, name, old)
            else:
                d, name, old = rec
                if old is missing:
                    d.pop(name, None)
                else:
                    d[name] = old
