"""pyvc - contract verification of the real HoloPy functions.

The real function objects of /repo (imported from the current working tree) are
executed on symbolic scalars; every feasible path is enumerated and each
contract clause becomes one verification condition per path, discharged by an
SMT solver for all inputs.  See /verif/DESIGN.md section 2.
"""
