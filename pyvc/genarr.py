"""Arrays of symbolic length: a generic element and sums in normal form.

GenArr(N, e) stands for the array (e[i])_{0 <= i < N} where N is a symbolic integer and e is a z3
real term in the bound index IDX (typically through an uninterpreted base array x(IDX)).
Elementwise arithmetic acts on the generic element.  `sum()` is put in *normal form* by
linearity:  the element is expanded into monomials, index-free factors are pulled out of the sum
(L-SUM-LIN), a constant summand gives N*c (L-SUM-CONST), and each index-dependent monomial m gets
one symbol  S[m] = sum_{i<N} m(i)  (the same monomial always gets the same symbol: L-SUM-CONGR).
No quantifier reaches the solver.
"""
from fractions import Fraction

import z3

from . import sym, shim
from .sym import SNum, SBool, _poly, _mono_expr, _ATOMS, _real, _rv

IDX = z3.Int('i!gen')


def _depends(t, cache):
    k = t.get_id()
    if k in cache:
        return cache[k]
    if z3.eq(t, IDX):
        cache[k] = True
        return True
    r = any(_depends(ch, cache) for ch in t.children())
    cache[k] = r
    return r


class GenArr(shim.GenArr):
    def __init__(self, n, elem, sums=None):
        self.n = n if isinstance(n, SNum) else SNum(z3.IntVal(n))
        self.e = elem              # z3 real term in IDX
        self.sums = sums if sums is not None else {}

    @classmethod
    def fresh(cls, name, n):
        f = z3.Function(name, z3.IntSort(), z3.RealSort())
        return cls(n, f(IDX))

    # ------------------------------------------------------------------ basics
    @property
    def size(self):
        return self.n

    @property
    def shape(self):
        return (self.n,)

    ndim = 1

    def __len__(self):
        sym.unsupported("len() of an array of symbolic length")

    def elem(self):
        return SNum(self.e)

    def _lift(self, o):
        if isinstance(o, GenArr):
            return o.e
        if isinstance(o, SNum):
            return _real(o.e)
        v = sym._coerce(o)
        if v is None:
            return None
        return _real(v)

    def _new(self, e):
        return type(self)(self.n, e, self.sums)

    def __add__(self, o):
        v = self._lift(o)
        return NotImplemented if v is None else self._new(self.e + v)
    __radd__ = __add__

    def __sub__(self, o):
        v = self._lift(o)
        return NotImplemented if v is None else self._new(self.e - v)

    def __rsub__(self, o):
        v = self._lift(o)
        return NotImplemented if v is None else self._new(v - self.e)

    def __mul__(self, o):
        v = self._lift(o)
        return NotImplemented if v is None else self._new(self.e * v)
    __rmul__ = __mul__

    def __truediv__(self, o):
        v = self._lift(o)
        return NotImplemented if v is None else self._new(self.e / v)

    def __rtruediv__(self, o):
        v = self._lift(o)
        return NotImplemented if v is None else self._new(v / self.e)

    def __neg__(self):
        return self._new(-self.e)

    def __pow__(self, k):
        r = SNum(self.e) ** k
        return self._new(r.e)

    def sqrt(self):
        return self._new(SNum(self.e).sqrt().e)

    def log(self):
        return self._new(SNum(self.e).log().e)

    def exp(self):
        return self._new(SNum(self.e).exp().e)

    def copy(self, *a, **k):
        return self._new(self.e)

    # --------------------------------------------------------------------- sums
    def sum(self, *a, **k):
        """sum_{i<N} e(i) in normal form"""
        p = sym.cur()
        poly = _poly(z3.simplify(self.e))
        total = z3.RealVal(0)
        cache = {}
        for mono, q in poly.items():
            free, dep = [], []
            for key, power in mono:
                (dep if _depends(_ATOMS[key], cache) else free).append((key, power))
            coeff = _rv(q)
            if free:
                coeff = coeff * _mono_expr(tuple(free))
            if not dep:
                total = total + coeff * z3.ToReal(self.n.e)
                continue
            skey = ('sum', self.n.e.sexpr(), repr(tuple(dep)))
            if skey not in p.cache:
                s = p.fresh('Sum')
                p.cache[skey] = s
                p.defs[str(s)] = ('sum', self.n.e, _mono_expr(tuple(dep)))
                p.sum_symbols = getattr(p, 'sum_symbols', []) + [(s, self.n.e, _mono_expr(tuple(dep)))]
            total = total + coeff * p.cache[skey]
        return SNum(z3.simplify(total))

    def mean(self, *a, **k):
        return self.sum() / self.n


class GenImage(GenArr):
    """stands for an image (xr.DataArray) with N pixels; keeps track of whose metadata it carries"""
    meta_from = None

    def with_meta(self, other):
        self.meta_from = other
        return self
