#!/venv/bin/python
"""developer driver: run contracts of one property (optionally one contract) serially and print"""
import sys, os, time, importlib
sys.path[:0] = ['/verif/.deps', '/repo', '/verif']
from pyvc import contract as C
prop = sys.argv[1]
only = sys.argv[2] if len(sys.argv) > 2 else None
importlib.import_module('contracts.' + prop)
for cd in C.REGISTRY[prop]:
    if only and only not in cd.name: continue
    t=time.time()
    r = C.verify_contract(cd, 'quick')
    print("== %s paths=%d vcs=%d solver=%.2fs wall=%.2fs" % (cd.ident, r['paths'], r['vcs'], r['solver_s'], r['wall_s']))
    if 'crash' in r: print(r['crash'])
    for u in r['undecided']: print("   UNDECIDED:", u)
    for n,o in r['obligations'].items():
        print("   %-28s %-14s vcs=%d %s %.2fs %s" % (n, o['status'], o['vcs'], o['backends'], o['solver_s'], (o['detail'] or '')))
        if o['replay']: print("       replay:", str({k:v for k,v in o['replay'].items() if k in ('reproduced','inputs','how','observed','symbolic_exception')})[:700]); print((o['replay'].get('symbolic_traceback') or '')[-900:] if os.environ.get('TB') else '', end='')
    cc = C.crosscheck(cd, 20, 1)
    print("   crosscheck:", {k:v for k,v in cc.items() if k!='failures'}, str(cc['failures'][:1])[:400])
