"""C16  Images keep values, coordinates and metadata through I/O and metadata edits."""
import io as _io
import numpy as np
import xarray as xr

from pyvc.contract import contract
from pyvc import sym
import holopy.core.io.io as hio
import holopy.core.metadata as md
from holopy.core.io.io import Accumulator
from holopy.core.metadata import data_grid, update_metadata, to_vector, dict_to_array, make_coords
from holopy.core.utils import updated

MD = "holopy.core.metadata:"
IO = "holopy.core.io.io:"

META = {
    'out_of_reach': ["HDF5 and TIFF bytes on disk (h5netcdf, PIL) and the YAML text layer: the file formats are external dependencies; "
                     "pack_attrs/unpack_attrs are verified with yaml.dump / yaml.safe_load replaced by an inverse pair (the PyYAML assumption)",
                     "the 8/16-bit quantisation in _save_im (ndarray.astype('uint8') on pixel data is outside the symbolic subset)",
                     "file discovery order (glob)"],
    'assumptions': ["PyYAML round-trips plain scalars, lists and dicts: load(dump(v)) = v",
                    "PIL returns the raster of the file as an array (load_image is run on a stub image object with a concrete raster and symbolic spacing)",
                    "image shapes are small and concrete in the array-level contracts (bounded)"],
}


def _img(c, shape=(2, 2), prefix="p", **meta):
    vals = np.empty(shape, dtype=object if c.symbolic else float)
    for i in range(shape[0]):
        for j in range(shape[1]):
            vals[i, j] = c.real("%s%d%d" % (prefix, i, j))
    return data_grid(vals, spacing=(0.1, 0.15), **meta)


@contract("C16", "update_metadata", [MD + "update_metadata", MD + "to_vector", MD + "dict_to_array",
                                      "holopy.core.utils:updated"])
def update_metadata_c(c):
    """update_metadata returns a new image in which exactly the named fields changed (polarization normalised to unit
    length); fields passed as None keep their old value; the original image and its attrs are untouched"""
    n0, w0, s0 = c.real("old_index"), c.real("old_wavelen"), c.real("old_noise")
    im = _img(c, medium_index=n0, illum_wavelen=w0, illum_polarization=(1, 0), noise_sd=s0)
    im.name = 'orig'
    old_attrs = dict(im.attrs)
    old_vals = im.values.copy()
    n1, w1, s1 = c.real("new_index"), c.real("new_wavelen"), c.real("new_noise")
    px, py = c.real("px"), c.real("py")
    c.requires(c.not_(c.and_(c.eq(px, 0), c.eq(py, 0))) if c.symbolic else (abs(px) + abs(py) > 1e-6))
    which = c.choice("fields", ["index", "wavelen", "noise", "polarization", "all", "none"])
    kw = {}
    if which in ("index", "all"):
        kw['medium_index'] = n1
    if which in ("wavelen", "all"):
        kw['illum_wavelen'] = w1
    if which in ("noise", "all"):
        kw['noise_sd'] = s1
    if which in ("polarization", "all"):
        kw['illum_polarization'] = (px, py)
    out = c.call(update_metadata, im, **kw)
    c.ensures("new-object", out is not im and out.attrs is not im.attrs)
    c.ensures("medium-index", c.eq(out.attrs['medium_index'], n1 if 'medium_index' in kw else n0))
    c.ensures("wavelength", c.eq(out.attrs['illum_wavelen'], w1 if 'illum_wavelen' in kw else w0))
    c.ensures("noise", c.eq(out.attrs['noise_sd'], s1 if 'noise_sd' in kw else s0))
    pol = out.attrs['illum_polarization']
    if 'illum_polarization' in kw:
        norm = c.sqrt(px * px + py * py)
        c.ensures("polarization-normalised", c.and_(c.eq(pol.values[0] * norm, px), c.eq(pol.values[1] * norm, py),
                                                    c.eq(pol.values[2], 0)))
        c.ensures("polarization-unit-length", c.eq(sum(v * v for v in pol.values), 1))
        c.ensures("polarization-labels", list(pol.vector.values) == ['x', 'y', 'z'])
    else:
        c.ensures("polarization-kept", c.eq(pol.values, np.array([1., 0., 0.])))
    c.ensures("nothing-else-changed", c.and_(set(out.attrs) == set(old_attrs), out.name == 'orig', out.dims == im.dims,
                                             c.eq(out.values, old_vals), c.eq(out.x.values, im.x.values),
                                             c.eq(out.y.values, im.y.values)))
    c.ensures("original-untouched", c.and_(c.eq(im.attrs['medium_index'], n0), c.eq(im.attrs['illum_wavelen'], w0),
                                           c.eq(im.attrs['noise_sd'], s0), im.attrs['illum_polarization'] is old_attrs['illum_polarization'],
                                           c.eq(im.values, old_vals)))
    c.canary("polarization-not-normalised", c.eq(pol.values[0], px) if 'illum_polarization' in kw else False)


@contract("C16", "update_metadata_missing", [MD + "update_metadata"])
def update_metadata_missing(c):
    """fields that were never set are present and None after an update; an image without metadata gets all four keys"""
    im = _img(c)
    im.attrs = {}
    n1 = c.real("new_index")
    out = c.call(update_metadata, im, medium_index=n1)
    c.ensures("all-four-keys", set(out.attrs) == {'medium_index', 'illum_wavelen', 'illum_polarization', 'noise_sd'})
    c.ensures("unset-are-none", out.attrs['illum_wavelen'] is None and out.attrs['noise_sd'] is None
              and out.attrs['illum_polarization'] is None)
    c.ensures("set-value", c.eq(out.attrs['medium_index'], n1))
    c.ensures("original-untouched", im.attrs == {})


@contract("C16", "per_channel_metadata", [MD + "update_metadata", MD + "dict_to_array", MD + "to_vector"])
def per_channel(c):
    """dictionary-valued optics become arrays labelled by the matching illumination channel (keyed by label, not position);
    the caller's dictionaries are not modified"""
    vals = np.empty((2, 2, 2), dtype=object if c.symbolic else float)
    for idx in np.ndindex(2, 2, 2):
        vals[idx] = c.real("p%d%d%d" % idx)
    im = data_grid(vals, spacing=0.1, extra_dims={'illumination': ['red', 'green']})
    wr, wg = c.real("w_red"), c.real("w_green")
    pxr, pyr = c.real("pxr"), c.real("pyr")
    c.requires(c.not_(c.and_(c.eq(pxr, 0), c.eq(pyr, 0))) if c.symbolic else (abs(pxr) + abs(pyr) > 1e-6))
    order = c.choice("dict_order", ["red-first", "green-first"])
    wl = {'red': wr, 'green': wg} if order == "red-first" else {'green': wg, 'red': wr}
    pol = {'red': (pxr, pyr), 'green': (0, 1)} if order == "red-first" else {'green': (0, 1), 'red': (pxr, pyr)}
    wl_copy, pol_copy = dict(wl), dict(pol)
    out = c.call(update_metadata, im, illum_wavelen=wl, illum_polarization=pol, noise_sd={'red': 0.1, 'green': 0.2})
    w = out.attrs['illum_wavelen']
    c.ensures("wavelength-by-label", c.and_(c.eq(w.sel(illumination='red').item(), wr), c.eq(w.sel(illumination='green').item(), wg)))
    p = out.attrs['illum_polarization']
    norm = c.sqrt(pxr * pxr + pyr * pyr)
    pr = p.sel(illumination='red')
    c.ensures("polarization-by-label", c.and_(c.eq(pr.sel(vector='x').item() * norm, pxr), c.eq(pr.sel(vector='y').item() * norm, pyr),
                                              c.eq(p.sel(illumination='green', vector='y').item(), 1)))
    nz = out.attrs['noise_sd']
    c.ensures("noise-by-label", c.and_(c.eq(nz.sel(illumination='red').item(), 0.1), c.eq(nz.sel(illumination='green').item(), 0.2)))
    c.ensures("caller-dicts-untouched", wl == wl_copy and pol == pol_copy and isinstance(pol['red'], tuple))
    bad = c.outcome(update_metadata, im, illum_wavelen={'cyan': wr, 'green': wg})
    c.ensures("unknown-channel-refused", bad.raised(ValueError))


@contract("C16", "pixel_coordinates", [MD + "data_grid", MD + "make_coords", MD + "detector_grid"],
          bounded="image shapes up to 3x4 (and 2 channels); spacing symbolic")
def pixel_coordinates(c):
    """an image with spacing (s_x, s_y) has pixel (i, j) at (i*s_x, j*s_y); a scalar spacing is used for both axes;
    extra dimensions are appended in the requested order"""
    sx, sy = c.real("sx", pos=True), c.real("sy", pos=True)
    shape = c.choice("shape", [(2, 2), (3, 4), (1, 3)])
    scalar = c.choice("scalar_spacing", [False, True])
    arr = np.arange(shape[0] * shape[1], dtype=float).reshape(shape)
    im = c.call(data_grid, arr, spacing=(sx if scalar else (sx, sy)))
    ex = [i * sx for i in range(shape[0])]
    ey = [j * (sx if scalar else sy) for j in range(shape[1])]
    c.ensures("dims", im.dims == ('z', 'x', 'y') and im.shape == (1,) + shape)
    c.ensures("x-coordinates", c.eq(im.x.values, np.array(ex, dtype=object if c.symbolic else float)))
    c.ensures("y-coordinates", c.eq(im.y.values, np.array(ey, dtype=object if c.symbolic else float)))
    c.ensures("z-zero", c.eq(im.z.values, np.array([0])))
    c.ensures("values-kept", c.eq(im.values[0], arr))
    if not scalar and shape[0] > 1:
        c.canary("x-uses-y-spacing", c.eq(im.x.values[-1], (shape[0] - 1) * sy))
    if shape[0] == 1:
        return          # a one-row detector with extra dimensions is refused by data_grid (DESIGN note N9)
    det = c.call(md.detector_grid, shape, (sx, sy), extra_dims={'illumination': ['green', 'red']})
    c.ensures("detector-grid-coordinates", c.and_(c.eq(det.x.values, np.array(ex, dtype=object if c.symbolic else float)),
                                                  c.eq(det.y.values, np.array([j * sy for j in range(shape[1])],
                                                                              dtype=object if c.symbolic else float)),
                                                  list(det.illumination.values) == ['green', 'red'],
                                                  det.dims == ('z', 'x', 'y', 'illumination')))


class _FakePIL:
    """stands for PIL.Image.open(file): a raster of concrete numbers"""

    def __init__(self, arr):
        self._arr = arr
        self.tag = {}

    def __array__(self, dtype=None, copy=None):
        return self._arr


class _PilModule:
    def __init__(self, arr):
        self._arr = arr

    def open(self, f):
        return _FakePIL(self._arr)


@contract("C16", "load_image", [IO + "load_image", MD + "data_grid"],
          bounded="one 3x4 greyscale and one 3x4x3 colour raster (concrete pixel values), spacing symbolic, channel selections enumerated")
def load_image(c):
    """loading a raster image with spacing s places pixel (i, j) at (i*s_x, j*s_y), keeps the values, and stacks the
    requested colour channels in the requested order on an `illumination` axis"""
    sx, sy = c.real("sx", pos=True), c.real("sy", pos=True)
    rng = np.random.RandomState(5)
    grey = rng.randint(0, 255, (3, 4)).astype(float)
    colour = rng.randint(0, 255, (3, 4, 3)).astype(float)
    which = c.choice("case", ["grey", "one-channel", "two-channels", "reversed", "all"])
    saved = hio.pilimage, hio.__dict__.get('open')
    hio.pilimage = _PilModule(grey if which == "grey" else colour)
    hio.open = lambda *a, **k: _io.BytesIO(b'')
    try:
        channel = {"grey": None, "one-channel": 1, "two-channels": [0, 2], "reversed": [2, 0], "all": 'all'}[which]
        im = c.call(hio.load_image, "somewhere/picture.tif", spacing=(sx, sy), channel=channel)
    finally:
        hio.pilimage = saved[0]
        if saved[1] is None:
            del hio.open
        else:
            hio.open = saved[1]
    A = (lambda v: np.array(v, dtype=object if c.symbolic else float))
    c.ensures("x-coordinates", c.eq(im.x.values, A([i * sx for i in range(3)])))
    c.ensures("y-coordinates", c.eq(im.y.values, A([j * sy for j in range(4)])))
    c.ensures("name-from-file", im.name == 'picture')
    if which == "grey":
        c.ensures("values", c.eq(im.values[0], grey))
    elif which == "one-channel":
        c.ensures("values", c.eq(im.values[0], colour[:, :, 1]))
    else:
        chans = {"two-channels": [0, 2], "reversed": [2, 0], "all": [0, 1, 2]}[which]
        names = [['red', 'green', 'blue'][k] for k in chans]
        c.ensures("channel-labels", list(im.illumination.values) == names)
        c.ensures("values", c.and_(*[c.eq(im.sel(illumination=nm).values[0], colour[:, :, k]) for nm, k in zip(names, chans)]))


class _Dumped:
    def __init__(self, v):
        self.v = v


class _Yaml:
    """the PyYAML assumption: dump and load are an inverse pair on plain data"""
    @staticmethod
    def dump(v, **k):
        return _Dumped(v)

    @staticmethod
    def load(d, **k):
        return d.v

    @staticmethod
    def safe_load(d):
        return d.v


@contract("C16", "attrs_roundtrip", [IO + "pack_attrs", IO + "unpack_attrs"],
          patches=[("holopy.core.io.io", "yaml", _Yaml)])
def attrs_roundtrip(c):
    """unpack_attrs(pack_attrs(a)) restores every attribute: scalars (including zero), None, and array-valued (per-channel)
    ones with their coordinates.  Symbolically PyYAML is an inverse pair; natively the real PyYAML is used."""
    n0, w_r, w_g, s0 = c.real("index"), c.real("w_red"), c.real("w_green"), c.real("noise")
    vals = np.zeros((2, 2, 2))
    im = data_grid(vals, spacing=0.1, extra_dims={'illumination': ['red', 'green']})
    im = update_metadata(im, medium_index=n0, illum_wavelen={'red': w_r, 'green': w_g}, illum_polarization=(1, 0))
    im.attrs['exposure'] = s0
    im.attrs['zero_valued'] = 0.0
    im.name = 'holo'
    packed = c.call(hio.pack_attrs, im)
    back = c.call(hio.unpack_attrs, packed)
    c.ensures("keys", set(back) == set(im.attrs))
    c.ensures("scalar-restored", c.and_(c.eq(back['medium_index'], n0), c.eq(back['exposure'], s0)))
    c.ensures("zero-restored", back.get('zero_valued') is not None and c.eq(back['zero_valued'], 0.0))
    c.ensures("none-restored", back['noise_sd'] is None)
    w = back['illum_wavelen']
    c.ensures("per-channel-restored", c.and_(isinstance(w, xr.DataArray), w.dims == ('illumination',),
                                             c.eq(w.sel(illumination='red').item(), w_r), c.eq(w.sel(illumination='green').item(), w_g)))
    p = back['illum_polarization']
    c.ensures("vector-restored", c.and_(p.dims == ('vector',), list(p.vector.values) == ['x', 'y', 'z'], c.eq(p.values, np.array([1., 0., 0.]))))
    c.ensures("name-packed", packed['name'] == 'holo')
    c.ensures("empty-attrs", c.call(hio.unpack_attrs, {}) == {})


@contract("C16", "attrs_roundtrip_native", [IO + "pack_attrs", IO + "unpack_attrs"], native_only=True,
          bounded="native sampling: real PyYAML, spacings over eleven orders of magnitude")
def attrs_roundtrip_native(c):
    """the same round trip through the real PyYAML (conformance of the inverse-pair assumption), on sampled values"""
    n0, w_r, w_g = c.real("index"), c.real("w_red"), c.real("w_green")
    vals = np.zeros((2, 2, 2))
    im = data_grid(vals, spacing=0.1, extra_dims={'illumination': ['red', 'green']})
    im = update_metadata(im, medium_index=n0, illum_wavelen={'red': w_r, 'green': w_g}, illum_polarization=(1, 0))
    back = hio.unpack_attrs(hio.pack_attrs(im))
    ok = (abs(back['medium_index'] - n0) < 1e-12 and back['noise_sd'] is None
          and abs(float(back['illum_wavelen'].sel(illumination='red')) - w_r) < 1e-12
          and abs(float(back['illum_wavelen'].sel(illumination='green')) - w_g) < 1e-12)
    c.ensures("real-yaml-roundtrip", ok)
    # the pixel spacing written to the image header (TIFF export) is the image's spacing, whatever the unit of length
    mant, expo = c.real("spacing_mantissa", sample=(1.0, 9.999)), c.int("spacing_exponent", -9, 1)
    sx = mant * 10.0 ** expo
    sy = sx * 1.37
    im2 = data_grid(np.zeros((3, 2)), spacing=(sx, sy), medium_index=n0)
    head = hio.pack_attrs(im2, do_spacing=True)
    c.ensures("header-spacing-is-the-images-spacing", len(head['spacing']) == 2 and abs(head['spacing'][0] - sx) <= 1e-9 * sx
              and abs(head['spacing'][1] - sy) <= 1e-9 * sy)


def _load_average(order):
    def body(c):
        ims = {}
        for nm in "abc":
            ims[nm + ".tif"] = _img(c, (1, 2), nm)
        if not c.symbolic:
            c.requires(all(abs(sum(im.values.flat[k] for im in ims.values())) > 1e-2 for k in range(2)))
        else:
            for k in range(2):
                c.requires(c.not_(c.eq(sum(im.values.flat[k] for im in ims.values()), 0)))
        saved = hio.load_image
        hio.load_image = lambda path, spacing, channel=None: ims[path]
        try:
            files = [n + ".tif" for n in order]
            avg = c.call(hio.load_average, files, spacing=0.1, medium_index=1.33)
        finally:
            hio.load_image = saved
        noise = 0
        for idx in np.ndindex(1, 1, 2):
            xs = [ims[f].values[idx] for f in sorted(ims)]
            m = sum(xs) / 3
            c.ensures("pixelwise-mean", c.eq(avg.values[idx], m))
            var = sum((v - m) ** 2 for v in xs) / 3
            noise = noise + c.sqrt(var) / m
        c.ensures("relative-noise", c.eq(avg.attrs['noise_sd'].item() if hasattr(avg.attrs['noise_sd'], 'item') else avg.attrs['noise_sd'],
                                         noise / 2, tol=1e-5))
        c.ensures("metadata-from-arguments", c.eq(avg.attrs['medium_index'], 1.33))
    body.__doc__ = "averaging images %s gives their pixelwise mean and the mean relative standard deviation as noise" % (order,)
    return body


for _o in ("abc", "cab", "bca"):
    contract("C16", "load_average_" + _o, [IO + "load_average", IO + "Accumulator.push", IO + "Accumulator.mean", IO + "Accumulator.std"],
             bounded="3 images of shape (1,2) with symbolic pixels; file order " + _o, timeout_ms=60000)(_load_average(_o))


@contract("C16", "accumulator_invariant", [IO + "Accumulator.push", IO + "Accumulator.mean", IO + "Accumulator.std"])
def accumulator_invariant(c):
    """Welford invariant for every number of pushed images (see C18/accumulator_step): mean = S1/n, M2 = S2 - S1^2/n is
    preserved by push, so the result depends only on the symmetric sums S1, S2 - not on the order of the files"""
    n = c.int("n", 1, None)
    S1, S2, x = c.real("S1"), c.real("S2"), c.real("x")
    if not c.symbolic:
        c.requires(n < 10 ** 6)
    st = c.call(Accumulator)
    st._n = n
    st._running_mean = S1 / n
    st._running_var = S2 - S1 * S1 / n
    c.call(st.push, x)
    c.ensures("step-mean", c.eq(st._running_mean, (S1 + x) / (n + 1)))
    c.ensures("step-M2", c.eq(st._running_var, (S2 + x * x) - (S1 + x) * (S1 + x) / (n + 1)))
    c.ensures("step-n", c.eq(st._n, n + 1))


# "editing metadata normalises the polarization to unit length" - for 2- and 3-component polarizations: the contract is C01's
# to_vector contract; it is checked under this property as well (update_metadata stores what to_vector returns)
from contracts.C01 import to_vector_c as _to_vector_contract          # noqa: E402
contract("C16", "polarization_normalised", ["holopy.core.metadata:to_vector", "holopy.core.metadata:update_metadata"])(
    _to_vector_contract.fn if hasattr(_to_vector_contract, 'fn') else _to_vector_contract)


@contract("C16", "load_average_reference_window_native", [IO + "load_average"], native_only=True,
          bounded="native sampling: three 90x3 images, a reference window of 3 rows starting at every row index incl. those where (k*s)/s < k in floating point")
def load_average_reference_window(c):
    """averaging cropped to a reference image: the result is the pixelwise mean of exactly the reference image's window - the pixels
    whose coordinates the reference image has - with the reference's coordinates, for every window origin and pixel spacing"""
    spacing = c.choice("spacing", [0.1, 0.0851, 0.25])
    rng = np.random.RandomState(c.int("seed", 0, 10 ** 6))
    full = {nm: data_grid(rng.rand(90, 3) + 1.0, spacing=spacing) for nm in ("a.tif", "b.tif", "c.tif")}
    saved = hio.load_image
    hio.load_image = lambda path, spacing, channel=None: full[path]
    try:
        mean_full = sum(im.values for im in full.values()) / 3
        bad = None
        for k in range(0, 87):                                   # every window origin on every run
            ref = full["a.tif"].isel(x=slice(k, k + 3))
            avg = hio.load_average(sorted(full), refimg=ref, medium_index=1.33)
            ok = bool(np.allclose(avg.values, mean_full[:, k:k + 3, :])) and bool(np.allclose(avg.x.values, ref.x.values))
            if not ok and bad is None:
                bad = "window starting at row %d (x = %r, spacing %r): mean of rows %s returned" % (
                    k, float(ref.x.values[0]), spacing,
                    [int(i) for i in range(88) if np.allclose(avg.values[0, 0], mean_full[0, i])][:1])
    finally:
        hio.load_image = saved
    c.ensures("mean-of-the-reference-window-for-every-origin", bad is None, detail=bad)
