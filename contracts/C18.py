"""C18  Image-processing tools satisfy their defining identities."""
import numpy as np
import xarray as xr

from pyvc.contract import contract
from pyvc import models, sym
from pyvc.sym import SNum
import holopy.core.process.img_proc as ip
from holopy.core.io.io import Accumulator
from holopy.core.metadata import data_grid
from holopy.core.errors import BadImage

I = "holopy.core.process.img_proc:"
DT = [("holopy.core.process.img_proc", "dt", models.detrend)]

META = {
    'out_of_reach': ["the Hough-transform centre finder locating a computed hologram's centre to within one pixel (a heuristic on "
                     "computed holograms; needs the Fortran Mie kernel and has no closed-form contract)"],
    'assumptions': ["scipy.signal.detrend subtracts the least-squares line along an axis (model pyvc/models.py:detrend, conformance "
                    "tested natively by the cross-check)",
                    "DataArray.interpolate_na interpolates linearly between the nearest valid neighbours and keeps NaN where one side "
                    "is missing (model pyvc/models.py:interpolate_na)",
                    "xarray arithmetic, sum, mean(skipna), where, concat, isel act on object-dtype data as on float data",
                    "image shapes are small and concrete in the array-level contracts (bounded); the Welford step and the subimage index "
                    "arithmetic are proved for all n / all integer centres and even sizes"],
}

META_ATTRS = dict(medium_index=1.33, illum_wavelen=0.66, illum_polarization=(1, 0), noise_sd=0.05)
SHAPES = [(2, 2), (2, 3)]


def _img(c, shape, prefix="p", spacing=(0.1, 0.15), positive=False, **meta):
    vals = np.empty(shape, dtype=object if c.symbolic else float)
    for i in range(shape[0]):
        for j in range(shape[1]):
            vals[i, j] = c.real("%s%d%d" % (prefix, i, j), pos=positive)
    meta = meta or META_ATTRS
    im = data_grid(vals, spacing=spacing, **meta)
    im.name = 'img_' + prefix
    return im


def _same_meta(c, out, im):
    return c.and_(out.name == im.name, set(out.attrs) == set(im.attrs),
                  c.eq(out.attrs['medium_index'], im.attrs['medium_index']),
                  c.eq(out.attrs['illum_wavelen'], im.attrs['illum_wavelen']),
                  c.eq(out.attrs['noise_sd'], im.attrs['noise_sd']),
                  c.eq(out.x.values, im.x.values), c.eq(out.y.values, im.y.values), out.dims == im.dims)


@contract("C18", "normalize", [I + "normalize"], bounded="image shapes (2,2) (2,3); pixel values symbolic")
def normalize(c):
    """normalize: every pixel times N / sum; mean exactly 1; idempotent; invariant under positive rescaling; metadata kept"""
    shape = c.choice("shape", SHAPES)
    im = _img(c, shape)
    total = sum(im.values.flat)
    c.requires(c.not_(c.eq(total, 0)) if c.symbolic else abs(total) > 1e-3)
    n = c.call(ip.normalize, im)
    N = shape[0] * shape[1]
    c.ensures("pixelwise", c.and_(*[c.eq(a, b * N / total) for a, b in zip(n.values.flat, im.values.flat)]))
    c.ensures("mean-one", c.eq(sum(n.values.flat) / N, 1))
    c.ensures("metadata-kept", _same_meta(c, n, im))
    again = c.call(ip.normalize, n)
    c.ensures("idempotent", c.eq(again.values, n.values))
    k = c.real("k", pos=True)
    if not c.symbolic:
        c.requires(1e-3 < k < 1e3)
    scaled = c.call(ip.normalize, im * k)
    c.ensures("scale-invariant", c.eq(scaled.values, n.values))
    c.ensures("input-untouched", c.eq(sum(im.values.flat), total))
    c.canary("divides-by-max", c.eq(n.values.flat[0], 1))


@contract("C18", "normalize_generic", [I + "normalize"],
          patches=[("holopy.core.process.img_proc", "copy_metadata", lambda old, new: new.with_meta(old))])
def normalize_generic(c):
    """normalize on an image of ANY size: pixel i becomes x_i * N / S (S = sum of pixels), hence mean 1, for all N >= 1"""
    from pyvc.genarr import GenArr, GenImage
    N = c.int("N", 1, None)
    if c.symbolic:
        im = GenImage.fresh("x", N)
        out = c.call(ip.normalize, im)
        S = im.sum()
        c.requires(c.not_(c.eq(S, 0)))
        c.ensures("pixelwise", c.eq(out.elem(), im.elem() * N / S))
        c.ensures("mean-one", c.eq(out.sum() / N, 1))
        c.ensures("metadata-via-copy_metadata", out.meta_from is im)
    else:
        if N > 200:
            c.requires(False)
        rng = np.random.RandomState(N)
        vals = rng.rand(1, N) + 0.1
        im = data_grid(vals, spacing=0.1, **META_ATTRS)
        out = ip.normalize(im)
        c.ensures("pixelwise", np.allclose(out.values, im.values * N / im.values.sum()))
        c.ensures("mean-one", abs(out.values.mean() - 1) < 1e-9)
        c.ensures("metadata-via-copy_metadata", out.attrs.keys() == im.attrs.keys())


@contract("C18", "bg_correct", [I + "bg_correct", I + "zero_filter"], bounded="image shape (2,2); pixel values symbolic",
          max_paths=300)
def bg_correct(c):
    """background correction = (raw - dark)/(background - dark) pixel by pixel (where background - dark > 0); exactly 1
    for an image divided by itself; noise_sd taken from the background only when raw has none"""
    shape = (2, 2)
    raw = _img(c, shape, "r")
    bg = _img(c, shape, "b")
    df = _img(c, shape, "d")
    c.requires(c.and_(*[b - d > 0 for b, d in zip(bg.values.flat, df.values.flat)]))
    if not c.symbolic:
        c.requires(all(b - d > 1e-3 for b, d in zip(bg.values.flat, df.values.flat)))
    out = c.call(ip.bg_correct, raw, bg, df)
    c.ensures("formula", c.and_(*[c.eq(o, (r - d) / (b - d)) for o, r, b, d in
                                  zip(out.values.flat, raw.values.flat, bg.values.flat, df.values.flat)]))
    c.ensures("metadata-of-raw", _same_meta(c, out, raw))
    nodf = c.call(ip.bg_correct, raw, bg + df * 0 + 0) if False else None
    c.canary("ignores-dark-field", c.and_(*[c.eq(o, r / b) for o, r, b in zip(out.values.flat, raw.values.flat, bg.values.flat)]))


@contract("C18", "bg_correct_self", [I + "bg_correct", I + "zero_filter"], bounded="image shapes (2,2) (2,3); pixel values symbolic")
def bg_correct_self(c):
    """an image divided by itself is exactly 1; without a dark field the result is raw/bg; mismatched shapes are refused;
    noise_sd comes from the background only when raw has none"""
    shape = c.choice("shape", [(2, 2), (2, 3)])
    raw = _img(c, shape, "r", positive=True)
    if not c.symbolic:
        c.requires(all(v > 1e-3 for v in raw.values.flat))
    one = c.call(ip.bg_correct, raw, raw)
    c.ensures("self-division-is-one", c.and_(*[c.eq(v, 1) for v in one.values.flat]))
    bg = _img(c, shape, "b", positive=True, medium_index=1.33, illum_wavelen=0.66, illum_polarization=(1, 0), noise_sd=0.2)
    if not c.symbolic:
        c.requires(all(v > 1e-3 for v in bg.values.flat))
    out = c.call(ip.bg_correct, raw, bg)
    c.ensures("no-dark-field", c.and_(*[c.eq(o, r / b) for o, r, b in zip(out.values.flat, raw.values.flat, bg.values.flat)]))
    c.ensures("noise-of-raw-kept", c.eq(out.attrs['noise_sd'], 0.05))
    raw_nn = _img(c, shape, "r", positive=True, medium_index=1.33, illum_wavelen=0.66, illum_polarization=(1, 0))
    out2 = c.call(ip.bg_correct, raw_nn, bg)
    c.ensures("noise-from-background-when-missing", c.eq(out2.attrs['noise_sd'], 0.2))
    other = data_grid(np.ones((3, 2)), spacing=(0.1, 0.15), **META_ATTRS)
    c.ensures("shape-mismatch-refused", c.outcome(ip.bg_correct, raw, other).raised(BadImage))
    other_sp = data_grid(np.ones(shape), spacing=(0.1, 0.25), **META_ATTRS)
    c.ensures("spacing-mismatch-refused", c.outcome(ip.bg_correct, raw, other_sp).raised(BadImage))


@contract("C18", "zero_filter", [I + "zero_filter"], bounded="3x3 images; which pixel is dead is enumerated (interior, each edge, each corner), values symbolic",
          max_paths=200)
def zero_filter(c):
    """positive pixels untouched; isolated interior zero -> mean of its 4 neighbours; edge zero -> mean of its 2 neighbours
    along the edge; a dead corner is refused; metadata kept"""
    which = c.choice("dead", ["none", "interior", "edge-top", "edge-left", "edge-bottom", "edge-right",
                              "corner-00", "corner-02", "corner-20", "corner-22"])
    pos = {"none": None, "interior": (1, 1), "edge-top": (0, 1), "edge-left": (1, 0), "edge-bottom": (2, 1), "edge-right": (1, 2),
           "corner-00": (0, 0), "corner-02": (0, 2), "corner-20": (2, 0), "corner-22": (2, 2)}[which]
    vals = np.empty((3, 3), dtype=object if c.symbolic else float)
    for i in range(3):
        for j in range(3):
            vals[i, j] = 0.0 if (i, j) == pos else c.real("p%d%d" % (i, j), pos=True)
    if not c.symbolic:
        c.requires(all(v > 1e-6 or (i, j) == pos for (i, j), v in np.ndenumerate(vals)))
    im = data_grid(vals, spacing=(0.1, 0.1), **META_ATTRS)
    im.name = 'img'
    o = c.outcome(ip.zero_filter, im)
    if which.startswith("corner"):
        c.ensures("dead-corner-refused", o.raised(BadImage))
        return
    c.ensures("no-exception", o.ok)
    out = o.value
    v = out.values[0]
    for i in range(3):
        for j in range(3):
            if (i, j) != pos:
                c.ensures("positive-pixels-untouched", c.eq(v[i, j], vals[i, j]))
    if which == "interior":
        c.ensures("interior-zero-is-mean-of-4", c.eq(v[1, 1], (vals[0, 1] + vals[2, 1] + vals[1, 0] + vals[1, 2]) / 4))
    if which == "edge-top":
        c.ensures("edge-zero-is-mean-of-2-along-edge", c.eq(v[0, 1], (vals[0, 0] + vals[0, 2]) / 2))
    if which == "edge-left":
        c.ensures("edge-zero-is-mean-of-2-along-edge", c.eq(v[1, 0], (vals[0, 0] + vals[2, 0]) / 2))
    if which == "edge-bottom":
        c.ensures("edge-zero-is-mean-of-2-along-edge", c.eq(v[2, 1], (vals[2, 0] + vals[2, 2]) / 2))
    if which == "edge-right":
        c.ensures("edge-zero-is-mean-of-2-along-edge", c.eq(v[1, 2], (vals[0, 2] + vals[2, 2]) / 2))
    c.ensures("metadata-kept", _same_meta(c, out, im))


class _RecordingArr:
    """stands for an image of any size: records the index ranges subimage asks for"""

    def __init__(self, ndim=3):
        self.ndim = ndim
        self.asked = None

    def isel(self, **kw):
        self.asked = kw
        return self


@contract("C18", "subimage_indices", [I + "subimage"],
          patches=[("holopy.core.process.img_proc", "copy_metadata", lambda old, new: new)])
def subimage_indices(c):
    """for every integer centre (cx, cy) and even size s the retained index range is [c - s/2, c + s/2) on both axes
    (length s), whatever the image size; float centres are rounded half-to-even first"""
    cx, cy = c.int("cx"), c.int("cy")
    h = c.int("half", 1, None)
    s = 2 * h
    fx = c.real("fx")
    if c.symbolic:
        arr = _RecordingArr()
        c.call(ip.subimage, arr, np.array([cx, cy], dtype=object), s)
        ex, ey = arr.asked['x'], arr.asked['y']
        c.ensures("x-range", c.and_(c.eq(ex.start, cx - h), c.eq(ex.stop, cx + h), ex.step is None))
        c.ensures("y-range", c.and_(c.eq(ey.start, cy - h), c.eq(ey.stop, cy + h), ey.step is None))
        c.ensures("length", c.and_(c.eq(ex.stop - ex.start, s), c.eq(ey.stop - ey.start, s)))
        arr2 = _RecordingArr()
        c.call(ip.subimage, arr2, np.array([fx, cy], dtype=object), s)
        k = arr2.asked['x'].start + h        # the rounded centre
        c.ensures("float-centre-rounded", c.and_(k - fx <= 0.5, fx - k <= 0.5, c.eq(arr2.asked['x'].stop - arr2.asked['x'].start, s)))
        c.canary("off-by-one", c.eq(ex.stop, cx + h + 1))
    else:
        if not (2 <= h <= 6 and abs(cx) < 50 and abs(cy) < 50):
            c.requires(False)
        n = 40
        vals = np.arange(n * n, dtype=float).reshape(n, n)
        im = data_grid(vals, spacing=0.1, **META_ATTRS)
        ccx, ccy = cx % 20 + 10, cy % 20 + 10
        sub = ip.subimage(im, [ccx, ccy], s)
        ok = (sub.shape == (1, s, s) and np.allclose(sub.x.values, im.x.values[ccx - h:ccx + h])
              and np.allclose(sub.values[0], vals[ccx - h:ccx + h, ccy - h:ccy + h]))
        for name in ("x-range", "y-range", "length"):
            c.ensures(name, ok)
        sub2 = ip.subimage(im, [ccx + (fx % 1.0), ccy], s)
        k = int(np.round(ccx + (fx % 1.0)))
        c.ensures("float-centre-rounded", np.allclose(sub2.x.values, im.x.values[k - h:k + h]))


@contract("C18", "subimage_values", [I + "subimage"], bounded="5x5 image with symbolic pixels, size 2, every centre that fits")
def subimage_values(c):
    """cropping keeps each retained pixel's value and physical coordinates, and the image's metadata"""
    n = 5
    vals = np.empty((n, n), dtype=object if c.symbolic else float)
    for i in range(n):
        for j in range(n):
            vals[i, j] = c.real("p%d%d" % (i, j))
    im = data_grid(vals, spacing=(0.1, 0.25), **META_ATTRS)
    im.name = 'img'
    cx = c.choice("cx", [1, 2, 3, 4])
    cy = c.choice("cy", [1, 2, 3, 4])
    sub = c.call(ip.subimage, im, [cx, cy], 2)
    c.ensures("shape", sub.shape == (1, 2, 2))
    c.ensures("values", c.eq(sub.values[0], vals[cx - 1:cx + 1, cy - 1:cy + 1]))
    c.ensures("coordinates", c.and_(c.eq(sub.x.values, im.x.values[cx - 1:cx + 1]), c.eq(sub.y.values, im.y.values[cy - 1:cy + 1])))
    c.ensures("metadata", c.and_(sub.name == 'img', set(sub.attrs) == set(im.attrs), c.eq(sub.attrs['noise_sd'], 0.05)))
    c.ensures("input-untouched", im.shape == (1, n, n))


@contract("C18", "detrend", [I + "detrend"], patches=DT, bounded="image shapes (2,2) (2,3); plane coefficients and pixels symbolic")
def detrend(c):
    """detrending removes any added plane exactly and is linear; metadata kept"""
    shape = c.choice("shape", SHAPES)
    a, b, d = c.real("a"), c.real("b"), c.real("c")
    im = _img(c, shape)
    plane = np.array([[a + b * i + d * j for j in range(shape[1])] for i in range(shape[0])], dtype=object if c.symbolic else float)
    pl = data_grid(plane, spacing=(0.1, 0.15), **META_ATTRS)
    pl.name = 'plane'
    if not c.symbolic:
        c.requires(max(abs(a), abs(b), abs(d)) < 1e3 and all(abs(v) < 1e3 for v in im.values.flat))
    flat = c.call(ip.detrend, pl)
    c.ensures("plane-to-zero", c.and_(*[c.eq(v, 0, tol=1e-6) for v in flat.values.flat]))
    base = c.call(ip.detrend, im)
    both = c.call(ip.detrend, im + pl.values)
    c.ensures("added-plane-removed", c.eq(both.values, base.values, tol=1e-6))
    c.ensures("metadata-kept", _same_meta(c, base, im))
    c.canary("detrend-is-identity", c.eq(base.values, im.values))


@contract("C18", "accumulator_step", ["holopy.core.io.io:Accumulator.push", "holopy.core.io.io:Accumulator.mean",
                                      "holopy.core.io.io:Accumulator.std", "holopy.core.io.io:Accumulator.__init__"])
def accumulator_step(c):
    """Welford invariant, for every number of pushes n: mean = S1/n and M2 = S2 - S1^2/n (S1, S2 the plain sums of the
    pushed values and their squares, per pixel) is established by the first push and preserved by every further push;
    hence mean() and std() are the batch mean and (population) standard deviation, whatever the order of pushes
    (S1, S2 are symmetric in the pushed values: L-SUM-PERM)."""
    # first push
    x0 = c.real("x0")
    acc = c.call(Accumulator)
    c.ensures("empty-mean", c.eq(c.call(acc.mean), 0.0))
    c.ensures("empty-std", c.call(acc.std) is None)
    c.call(acc.push, x0)
    c.ensures("init-n", c.eq(acc._n, 1))
    c.ensures("init-mean", c.eq(acc._running_mean, x0))
    c.ensures("init-M2", c.eq(acc._running_var, 0))
    # inductive step from an arbitrary state satisfying the invariant
    n = c.int("n", 1, None)
    S1, S2, x = c.real("S1"), c.real("S2"), c.real("x")
    if not c.symbolic:
        c.requires(n < 10 ** 6)
    st = c.call(Accumulator)
    st._n = n
    st._running_mean = S1 / n
    st._running_var = S2 - S1 * S1 / n
    c.call(st.push, x)
    c.ensures("step-n", c.eq(st._n, n + 1))
    c.ensures("step-mean", c.eq(st._running_mean, (S1 + x) / (n + 1)))
    c.ensures("step-M2", c.eq(st._running_var, (S2 + x * x) - (S1 + x) * (S1 + x) / (n + 1)))
    # consequences of the invariant (the variance estimate the code takes the root of is non-negative for real data)
    c.requires(st._running_var / st._n >= 0)
    m, sd = c.call(st.mean), c.call(st.std)
    c.ensures("mean-is-batch-mean", c.eq(m, (S1 + x) / (n + 1)))
    c.ensures("std-is-batch-std", c.and_(c.ge(sd, 0), c.eq(sd * sd, (S2 + x * x) / (n + 1) - ((S1 + x) / (n + 1)) ** 2, tol=1e-5)))
    c.canary("sample-variance", c.eq(sd * sd * n, (S2 + x * x) - (S1 + x) * (S1 + x) / (n + 1)))


@contract("C18", "accumulator_order", ["holopy.core.io.io:Accumulator.push", "holopy.core.io.io:Accumulator.mean", "holopy.core.io.io:Accumulator.std"],
          bounded="3 pushed images of shape (2,2), all 6 orders, with and without reading mean/std between the pushes")
def accumulator_order(c):
    """mean and std of three pushed images equal the batch values, in every push order, and keep the image metadata"""
    ims = [_img(c, (2, 2), pfx) for pfx in "abc"]
    order = c.choice("order", [(0, 1, 2), (0, 2, 1), (1, 0, 2), (1, 2, 0), (2, 0, 1), (2, 1, 0)])
    read_between = c.choice("mean_and_std_read_between_pushes", [False, True])
    acc = c.call(Accumulator)
    for k in order:
        c.call(acc.push, ims[k])
        if read_between:          # reading the running values is an observation: it must not disturb the accumulation
            c.call(acc.mean)
            c.call(acc.std)
    mean, std = c.call(acc.mean), c.call(acc.std)
    mean2, std2 = c.call(acc.mean), c.call(acc.std)
    c.ensures("reading-twice-gives-the-same", c.and_(c.eq(mean2.values, mean.values), c.eq(std2.values, std.values)))
    for idx in np.ndindex(1, 2, 2):
        xs = [im.values[idx] for im in ims]
        m = sum(xs) / 3
        c.ensures("mean", c.eq(mean.values[idx], m))
        c.ensures("std", c.and_(c.ge(std.values[idx], 0),
                                c.eq(std.values[idx] ** 2, sum((v - m) ** 2 for v in xs) / 3, tol=1e-5)))
    first = ims[order[0]]
    c.ensures("metadata-kept", c.and_(mean.dims == first.dims, c.eq(mean.x.values, first.x.values),
                                      c.eq(mean.attrs['medium_index'], 1.33)))


@contract("C18", "make_center_priors", ["holopy.core.prior:make_center_priors", "holopy.core.metadata:get_spacing",
                                        "holopy.core.metadata:get_extents"],
          bounded="4x5 image; pixel spacing, image origin and the centre-finder result symbolic")
def make_center_priors(c):
    """default centre priors: Gaussian in x and y at (centre-finder pixel) * spacing + image origin with sd = uncertainty *
    spacing per axis, Uniform in z over (0, multiple of the image extent) - the centre finder itself is a stub (out of reach)"""
    import holopy.core.prior as pr
    from holopy.core.prior import Gaussian, Uniform
    sx, sy = c.real("sx", pos=True, sample=(0.05, 0.5)), c.real("sy", pos=True, sample=(0.05, 0.5))
    x0, y0 = c.real("x0", sample=(-3, 3)), c.real("y0", sample=(-3, 3))
    cx, cy = c.real("cx", sample=(0, 3)), c.real("cy", sample=(0, 4))
    unc = c.real("uncertainty", pos=True, sample=(0.5, 3))
    nx, ny = 4, 5
    im = data_grid(np.ones((nx, ny)), spacing=0.1, **META_ATTRS)
    A = (lambda v: np.array(v, dtype=object if c.symbolic else float))
    im = im.assign_coords(x=A([x0 + i * sx for i in range(nx)]), y=A([y0 + j * sy for j in range(ny)]))
    saved = pr.center_find
    pr.center_find = lambda image: A([cx, cy])
    try:
        px, py, pz = c.call(pr.make_center_priors, im, xy_uncertainty_pixels=unc)
        zr = c.call(pr.make_center_priors, im, z_range_units=(1.5, 7.5))[2]
    finally:
        pr.center_find = saved
    c.ensures("types", isinstance(px, Gaussian) and isinstance(py, Gaussian) and isinstance(pz, Uniform))
    c.ensures("x-centre", c.eq(px.mu, cx * sx + x0))
    c.ensures("y-centre", c.eq(py.mu, cy * sy + y0))
    c.ensures("xy-width", c.and_(c.eq(px.sd, unc * sx), c.eq(py.sd, unc * sy)))
    ext = c.max(sx * nx, sy * ny)
    c.ensures("z-range", c.and_(c.eq(pz.lower_bound, 0), c.eq(pz.upper_bound, ext * 5)))
    c.ensures("z-range-in-units", c.and_(c.eq(zr.lower_bound, 1.5), c.eq(zr.upper_bound, 7.5)))
    c.canary("origin-ignored", c.eq(py.mu, cy * sy))


@contract("C18", "integer_images", [I + "normalize", I + "bg_correct", I + "zero_filter", I + "subimage", I + "detrend"], native_only=True,
          bounded="native sampling: 4x5 camera-like images with integer dtypes (uint8, uint16, int32, int64) against the same images as floats")
def integer_images(c):
    """raw camera images are integer-typed: every tool gives, pixel by pixel, what it gives for the same image stored as floats
    (no integer division, truncation or unsigned wrap-around)"""
    dtype = c.choice("dtype", ["uint8", "uint16", "int32", "int64"])
    hi = {"uint8": 250, "uint16": 60000, "int32": 10 ** 6, "int64": 10 ** 6}[dtype]
    rng = np.random.RandomState(c.int("seed", 0, 10 ** 6))
    raw = rng.randint(1, hi, size=(4, 5)).astype(dtype)
    df = rng.randint(0, max(2, hi // 50), size=(4, 5)).astype(dtype)          # dark counts; a dim raw pixel may lie below them
    bg = (df.astype('int64') + rng.randint(1, hi - hi // 50, size=(4, 5))).astype(dtype)     # an illuminated background exceeds the dark field
    mk = (lambda a, t: data_grid(a.astype(t), spacing=0.1, **META_ATTRS))
    close = (lambda a, b: bool(np.allclose(np.asarray(a.values, dtype=float), np.asarray(b.values, dtype=float), rtol=1e-9, atol=1e-12, equal_nan=True)))
    c.ensures("normalize", close(ip.normalize(mk(raw, dtype)), ip.normalize(mk(raw, float))))
    c.ensures("normalize-mean-one", abs(float(ip.normalize(mk(raw, dtype)).mean()) - 1) < 1e-9)
    c.ensures("bg-correct", close(ip.bg_correct(mk(raw, dtype), mk(bg, dtype)), ip.bg_correct(mk(raw, float), mk(bg, float))))
    c.ensures("bg-correct-with-dark-field", close(ip.bg_correct(mk(raw, dtype), mk(bg, dtype), mk(df, dtype)),
                                                  ip.bg_correct(mk(raw, float), mk(bg, float), mk(df, float))))
    got = ip.bg_correct(mk(raw, dtype), mk(bg, dtype), mk(df, dtype)).values.squeeze()
    want = (raw.astype(float) - df.astype(float)) / (bg.astype(float) - df.astype(float))
    worst = np.unravel_index(np.argmax(np.abs(got - want)), got.shape)
    c.ensures("bg-correct-formula", bool(np.allclose(got, want)),
              detail="%s image: pixel %s raw=%s background=%s dark=%s -> %r, (raw-dark)/(background-dark) = %r"
                     % (dtype, tuple(int(i) for i in worst), raw[worst], bg[worst], df[worst], float(got[worst]), float(want[worst])))
    c.ensures("subimage", close(ip.subimage(mk(raw, dtype), (2, 2), 2), ip.subimage(mk(raw, float), (2, 2), 2)))
    c.ensures("detrend", close(ip.detrend(mk(raw, dtype)), ip.detrend(mk(raw, float))))
    dead = bg.copy()
    dead[1, 2] = 0
    c.ensures("zero-filter", close(ip.zero_filter(mk(dead, dtype)), ip.zero_filter(mk(dead, float))))


@contract("C18", "center_find_native", ["holopy.core.process.centerfinder:center_find", "holopy.core.process.centerfinder:hough",
                                        "holopy.core.process.centerfinder:image_gradient"], native_only=True,
          bounded="native sampling: Mie-plus-lens holograms of one sphere on square, tall and wide detectors of 60-160 pixels, centre in the "
                  "central 60 %, radius / index / depth sampled")
def center_find_native(c):
    """the centre finder locates the centre of a computed single-sphere hologram to within one pixel - on square, tall and wide
    detectors alike"""
    from holopy.scattering import Sphere, calc_holo
    from holopy.scattering.theory import MieLens
    from holopy.core.metadata import detector_grid
    from holopy.core.process import center_find
    shape = c.choice("detector_shape", [(100, 100), (140, 80), (80, 140), (160, 100), (64, 120)])
    fx, fy = c.real("centre_fraction_x", sample=(0.2, 0.8)), c.real("centre_fraction_y", sample=(0.2, 0.8))
    r, n, z = c.real("radius", sample=(0.4, 0.7)), c.real("index", sample=(1.45, 1.65)), c.real("depth", sample=(8, 14))
    spacing = 0.1
    centre_px = (fx * (shape[0] - 1), fy * (shape[1] - 1))
    det = detector_grid(shape=shape, spacing=spacing)
    sph = Sphere(n=n, r=r, center=(centre_px[0] * spacing, centre_px[1] * spacing, z))
    holo = calc_holo(det, sph, medium_index=1.33, illum_wavelen=0.66, illum_polarization=(1, 0), theory=MieLens(lens_angle=0.8))
    o = c.outcome(center_find, holo)
    c.ensures("no-unexpected-exception", o.ok, detail=repr(o.exc))
    if o.ok:
        err = float(np.abs(np.asarray(o.value, dtype=float) - np.asarray(centre_px)).max())
        c.ensures("centre-within-one-pixel", err <= 1.0, detail="shape %s true centre (%.2f, %.2f) found %s: error %.2f px"
                  % (shape, centre_px[0], centre_px[1], tuple(np.round(np.asarray(o.value, dtype=float), 2)), err))
