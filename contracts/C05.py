"""C05  Holograms covariant under in-plane shift, axial rotation and mirroring."""
import numpy as np

from pyvc.contract import contract
from pyvc import sym
from holopy.scattering.interface import calc_holo, calc_field
from holopy.scattering.scatterer import Sphere, Spheres
from holopy.scattering.theory import MieLens
from holopy.scattering.theory.mielens import AberratedMieLens
from holopy.core.metadata import detector_points, to_vector
from contracts.common import AbstractPointTheory
from contracts.kernels import mielens_kernels

SI = "holopy.scattering.interface:"
IF = "holopy.scattering.imageformation:"
TH = "holopy.scattering.theory."

META = {
    'out_of_reach': ["rotational / mirror covariance of the compiled field routines (mie_fields, tmatrix_fields, calc_scat_field, fieldstocart) "
                     "and of the Lens quadrature: properties of kernel VALUES; for those theories what is proved is the hand-off (a rotation of "
                     "the configuration changes only the azimuth the kernel is given, by exactly the rotation angle; a common shift changes nothing)"],
    'assumptions': ["the MieLens pupil integrals I_0, I_2 are opaque functions of (k rho, k z, m, x, lens angle); everything else in "
                    "MieLens.raw_fields and MieLensCalculator.calculate_scattered_field is the real code",
                    "lemma instance for the azimuth: (cos, sin) determine an angle in [0, 2 pi) uniquely (L-ATAN2, Lean: angle_eq_of_cos_sin_eq)",
                    "one or two detector points (the theories are pointwise): bounded in the number of points only"],
}


def _optics(c):
    lam = c.real("wavelen", pos=True, sample=(0.4, 0.8))
    n_med = c.real("medium_index", pos=True, sample=(1.0, 1.6))
    n = c.real("n", pos=True, sample=(1.2, 2.0))
    r = c.real("r", pos=True, sample=(0.2, 1.0))
    return lam, n_med, n, r


def _shift(coords):
    def body(c):
        lam, n_med, n, r = _optics(c)
        cen = [c.real("cx", sample=(-1, 1)), c.real("cy", sample=(-1, 1)), c.real("cz", sample=(3, 9))]
        ax, ay = c.real("shift_x", sample=(-3, 3)), c.real("shift_y", sample=(-3, 3))
        px, py = c.real("pol_x", sample=(-1, 1)), c.real("pol_y", sample=(-1, 1))
        c.requires(c.not_(c.and_(c.eq(px, 0), c.eq(py, 0))) if c.symbolic else abs(px) + abs(py) > 1e-2)
        xs = [c.real("x0", sample=(-2, 2)), c.real("x1", sample=(-2, 2))]
        ys = [c.real("y0", sample=(-2, 2)), c.real("y1", sample=(-2, 2))]
        A = (lambda v: np.array(v, dtype=object if c.symbolic else float))
        th = AbstractPointTheory(coordinates=coords)
        kw = dict(medium_index=n_med, illum_wavelen=lam, illum_polarization=(px, py), theory=th)
        zs = [c.real("z0", sample=(-1, 1)), c.real("z1", sample=(-1, 1))]
        det0 = detector_points(x=A(xs), y=A(ys), z=A(zs))
        det1 = detector_points(x=A([v + ax for v in xs]), y=A([v + ay for v in ys]), z=A(zs))
        h0 = c.call(calc_holo, det0, Sphere(n=n, r=r, center=cen), **kw)
        h1 = c.call(calc_holo, det1, Sphere(n=n, r=r, center=[cen[0] + ax, cen[1] + ay, cen[2]]), **kw)
        c.ensures("kernel-positions-unchanged", c.eq(th.calls[1]['pos'], th.calls[0]['pos']))
        c.ensures("hologram-unchanged", c.eq(h1.values, h0.values))
        h2 = c.call(calc_holo, det1, Sphere(n=n, r=r, center=cen), **kw)
        c.canary("shifting-only-the-detector-changes-nothing", c.eq(th.calls[2]['pos'], th.calls[0]['pos']))
    body.__doc__ = ("shifting scatterer and detector by the same in-plane vector leaves the kernel's positions and the hologram "
                    "unchanged (theory asking for %s coordinates)" % coords)
    return body


def _shift_cluster(coords):
    def body(c):
        lam, n_med, n, r = _optics(c)
        cens = [[c.real("c%d_%s" % (i, ax), sample=((-1, 1) if ax != 'z' else (3, 9))) for ax in "xyz"] for i in range(2)]
        r2 = c.real("r_second", pos=True, sample=(0.2, 1.0))
        ax, ay = c.real("shift_x", sample=(-3, 3)), c.real("shift_y", sample=(-3, 3))
        xs = [c.real("x0", sample=(-2, 2)), c.real("x1", sample=(-2, 2))]
        ys = [c.real("y0", sample=(-2, 2)), c.real("y1", sample=(-2, 2))]
        A = (lambda v: np.array(v, dtype=object if c.symbolic else float))
        th = AbstractPointTheory(coordinates=coords)
        kw = dict(medium_index=n_med, illum_wavelen=lam, illum_polarization=(1, 0), theory=th)
        det0 = detector_points(x=A(xs), y=A(ys), z=A([0 * xs[0], 0 * xs[0]]))
        det1 = detector_points(x=A([v + ax for v in xs]), y=A([v + ay for v in ys]), z=A([0 * xs[0], 0 * xs[0]]))
        mk = (lambda dx, dy: Spheres([Sphere(n=n, r=r, center=[cens[0][0] + dx, cens[0][1] + dy, cens[0][2]]),
                                      Sphere(n=n, r=r2, center=[cens[1][0] + dx, cens[1][1] + dy, cens[1][2]])], warn=False))
        h0 = c.call(calc_holo, det0, mk(0, 0), **kw)
        n0 = len(th.calls)
        h1 = c.call(calc_holo, det1, mk(ax, ay), **kw)
        c.ensures("one-kernel-call-per-member", n0 == 2 and len(th.calls) == 4)
        for i in range(2):
            c.ensures("kernel-positions-unchanged-for-every-member", c.eq(th.calls[2 + i]['pos'], th.calls[i]['pos']))
        c.ensures("hologram-unchanged", c.eq(h1.values, h0.values))
        # the same detector object used again: nothing of the first calculation may linger
        h0_again = c.call(calc_holo, det0, mk(0, 0), **kw)
        c.ensures("repeatable-on-the-same-detector", c.eq(h0_again.values, h0.values))
    body.__doc__ = ("a cluster treated by superposition: shifting every member and the detector by the same in-plane vector leaves the "
                    "positions each member's kernel sees, and the hologram, unchanged (theory asking for %s coordinates)" % coords)
    return body


for _cs in ("spherical", "cylindrical", "cartesian"):
    contract("C05", "shift_cluster_" + _cs, [SI + "calc_holo", IF + "ImageFormation._transform_to_desired_coordinates",
                                             IF + "ImageFormation._calculate_scattered_field_from_superposition"],
             bounded="two spheres, two detector points", patches=[("holopy.scattering.scatterer.spherecluster", "Spheres.overlaps", property(lambda self: []))],
             timeout_ms=60000)(_shift_cluster(_cs))


for _cs in ("spherical", "cylindrical"):
    contract("C05", "shift_" + _cs, [SI + "calc_holo", IF + "ImageFormation._transform_to_desired_coordinates",
                                     IF + "ImageFormation._get_field_from"], bounded="two detector points")(_shift(_cs))


@contract("C05", "shift_integer_pixel_grid", [IF + "ImageFormation._transform_to_desired_coordinates", SI + "calc_holo"],
          bounded="3x3 grid with integer spacing 1 (integer-typed coordinates) and its crop shifted by whole pixels")
def shift_integer_grid(c):
    """on a detector given in whole pixels (integer-typed coordinates), moving the particle by a non-integer in-plane vector and
    the detector by the same vector leaves the values unchanged (compared on a float grid shifted by the same vector)"""
    lam, n_med, n, r = _optics(c)
    cen = [c.real("cx", sample=(0.1, 1.9)), c.real("cy", sample=(0.1, 1.9)), c.real("cz", sample=(3, 9))]
    ax, ay = c.real("shift_x", sample=(-3, 3)), c.real("shift_y", sample=(-3, 3))
    from holopy.core.metadata import detector_grid
    th = AbstractPointTheory(coordinates='cartesian')
    kw = dict(medium_index=n_med, illum_wavelen=lam, illum_polarization=(1, 0), theory=th)
    A = (lambda v: np.array(v, dtype=object if c.symbolic else float))
    grid = detector_grid(2, 1)                       # integer coordinates 0, 1
    h0 = c.call(calc_holo, grid, Sphere(n=n, r=r, center=cen), **kw)
    moved = grid.assign_coords(x=A([0 + ax, 1 + ax]), y=A([0 + ay, 1 + ay]))
    h1 = c.call(calc_holo, moved, Sphere(n=n, r=r, center=[cen[0] + ax, cen[1] + ay, cen[2]]), **kw)
    c.ensures("kernel-positions-unchanged", c.eq(th.calls[1]['pos'], th.calls[0]['pos']))
    c.ensures("hologram-unchanged", c.eq(h1.values, h0.values))


def _rotation(coords):
    def body(c):
        lam, n_med, n, r = _optics(c)
        cen = [c.real("cx", sample=(-1, 1)), c.real("cy", sample=(-1, 1)), c.real("cz", sample=(3, 9))]
        psi = c.angle("psi")
        dx, dy = c.real("dx", sample=(-2, 2)), c.real("dy", sample=(-2, 2))
        c.requires(c.not_(c.and_(c.eq(dx, 0), c.eq(dy, 0))) if c.symbolic else abs(dx) + abs(dy) > 1e-2)
        A = (lambda v: np.array(v, dtype=object if c.symbolic else float))
        cp, sp = c.cos(psi), c.sin(psi)
        rx, ry = cp * dx - sp * dy, sp * dx + cp * dy
        th = AbstractPointTheory(coordinates=coords)
        kw = dict(medium_index=n_med, illum_wavelen=lam, illum_polarization=(1, 0), theory=th)
        sph = Sphere(n=n, r=r, center=cen)
        c.call(calc_field, detector_points(x=A([cen[0] + dx]), y=A([cen[1] + dy]), z=A([0 * dx])), sph, **kw)
        c.call(calc_field, detector_points(x=A([cen[0] + rx]), y=A([cen[1] + ry]), z=A([0 * dx])), sph, **kw)
        p0, p1 = th.calls[0]['pos'], th.calls[1]['pos']
        if coords == "cylindrical":
            rad0, az0, ax0, rad1, az1, ax1 = p0[0][0], p0[1][0], p0[2][0], p1[0][0], p1[1][0], p1[2][0]
        else:
            rad0, ax0, az0, rad1, ax1, az1 = p0[0][0], p0[1][0], p0[2][0], p1[0][0], p1[1][0], p1[2][0]
        k = 2 * c.pi * n_med / lam
        c.ensures("in-plane-distance-unchanged", c.eq((k * rx) ** 2 + (k * ry) ** 2, (k * dx) ** 2 + (k * dy) ** 2))
        c.ensures("radius-unchanged", c.eq(rad1, rad0))
        c.ensures("axial-coordinate-unchanged", c.eq(ax1, ax0))
        c.ensures("azimuth-advanced-by-psi", c.and_(c.eq(c.cos(az1), c.cos(az0 + psi)), c.eq(c.sin(az1), c.sin(az0 + psi)),
                                                     c.ge(az1, 0), c.lt(az1, 2 * c.pi)))
        c.canary("azimuth-unchanged", c.eq(c.cos(az1), c.cos(az0)))
    body.__doc__ = ("rotating a detector point about the optical axis through the scatterer by psi changes only the azimuth handed to "
                    "the kernel, by exactly psi (mod 2 pi) (theory asking for %s coordinates)" % coords)
    return body


for _cs in ("spherical", "cylindrical"):
    contract("C05", "rotation_handoff_" + _cs, [IF + "ImageFormation._transform_to_desired_coordinates",
                                                "holopy.core.math:transform_cartesian_to_" + _cs],
             bounded="one detector point")(_rotation(_cs))


def _mielens_fields(c, th, rho, phi, kz, gamma, n_ratio, x):
    """MieLens.raw_fields at one point (rho, phi, z) in units of 1/k, for polarization angle gamma"""
    A = (lambda v: np.array(v, dtype=object if c.symbolic else float))
    pol = to_vector((c.cos(gamma), c.sin(gamma)))
    sph = Sphere(n=n_ratio, r=x, center=(0, 0, 0))          # with k = 1, n_medium = 1: index ratio and size parameter
    return th.raw_fields(np.array([A([rho]), A([phi]), A([kz])]), sph, 1, 1, pol)


def _mielens_covariance(which):
    def body(c):
        rho = c.real("krho", nonneg=True, sample=(0, 30))
        phi = c.angle("phi", lo=0, hi=2 * c.pi)
        kz = c.real("kz", sample=(-30, 30))
        gamma, psi = c.angle("gamma"), c.angle("psi")
        m, x = c.real("index_ratio", pos=True, sample=(1.05, 1.6)), c.real("size_parameter", pos=True, sample=(1, 10))
        c.requires(rho < 390)
        alpha = c.real("scaling", sample=(0.2, 1.5))
        with mielens_kernels():
            th = MieLens(lens_angle=0.9) if which == "MieLens" else AberratedMieLens(spherical_aberration=0.4, lens_angle=0.9)
            E0 = c.call(_mielens_fields, c, th, rho, phi, kz, gamma, m, x)
            E1 = c.call(_mielens_fields, c, th, rho, phi + psi, kz, gamma + psi, m, x)
        cp, sp = c.cos(psi), c.sin(psi)
        e0x, e0y, e1x, e1y = E0[0][0], E0[1][0], E1[0][0], E1[1][0]
        c.ensures("field-rotates-with-the-configuration", c.and_(c.eq(e1x, cp * e0x - sp * e0y), c.eq(e1y, sp * e0x + cp * e0y)))
        c.ensures("axial-component-zero", c.and_(c.eq(E0[2][0], 0), c.eq(E1[2][0], 0)))

        def holo(ex, ey, g):
            tx, ty = alpha * ex + c.cos(g), alpha * ey + c.sin(g)
            return c.re(tx) ** 2 + c.im(tx) ** 2 + c.re(ty) ** 2 + c.im(ty) ** 2
        c.ensures("hologram-value-unchanged", c.eq(holo(e1x, e1y, gamma + psi), holo(e0x, e0y, gamma)))
        c.canary("field-independent-of-rotation", c.eq(e1x, e0x))
    body.__doc__ = ("%s: rotating detector point and polarization by the same angle psi about the optical axis rotates the scattered "
                    "field by psi and leaves the hologram value unchanged, for every polarization direction" % which)
    return body


def _mielens_mirror(which):
    def body(c):
        rho = c.real("krho", nonneg=True, sample=(0, 30))
        phi = c.angle("phi", lo=0, hi=2 * c.pi)
        kz = c.real("kz", sample=(-30, 30))
        m, x = c.real("index_ratio", pos=True, sample=(1.05, 1.6)), c.real("size_parameter", pos=True, sample=(1, 10))
        c.requires(rho < 390)
        pol = c.choice("polarization", ["x", "y"])
        g = 0 if pol == "x" else c.pi / 2
        alpha = c.real("scaling", sample=(0.2, 1.5))
        with mielens_kernels():
            th = MieLens(lens_angle=0.9) if which == "MieLens" else AberratedMieLens(spherical_aberration=0.4, lens_angle=0.9)
            E = c.call(_mielens_fields, c, th, rho, phi, kz, g, m, x)
            Ex = c.call(_mielens_fields, c, th, rho, 2 * c.pi - phi, kz, g, m, x)        # mirrored in the x axis
            Ey = c.call(_mielens_fields, c, th, rho, c.pi - phi, kz, g, m, x)            # mirrored in the y axis
        # the component along the polarization is even, the other one odd, under either mirror
        sx, sy = (1, -1) if pol == "x" else (-1, 1)
        c.ensures("mirror-in-x-axis", c.and_(c.eq(Ex[0][0], sx * E[0][0]), c.eq(Ex[1][0], sy * E[1][0])))
        c.ensures("mirror-in-y-axis", c.and_(c.eq(Ey[0][0], sx * E[0][0]), c.eq(Ey[1][0], sy * E[1][0])))

        def holo(F):
            tx, ty = alpha * F[0][0] + c.cos(g), alpha * F[1][0] + c.sin(g)
            return c.re(tx) ** 2 + c.im(tx) ** 2 + c.re(ty) ** 2 + c.im(ty) ** 2
        c.ensures("hologram-symmetric-about-both-axes", c.and_(c.eq(holo(Ex), holo(E)), c.eq(holo(Ey), holo(E))))
    body.__doc__ = ("%s: under x- or y-polarized light the hologram of a sphere is symmetric about both in-plane axes through its centre" % which)
    return body


for _w in ("MieLens", "AberratedMieLens"):
    contract("C05", "covariance_" + _w, [TH + "mielens:MieLens.raw_fields", TH + "mielensfunctions:MieLensCalculator.calculate_scattered_field",
                                         TH + "mielensfunctions:MieLensCalculator._calculate_small_krho_scattered_field",
                                         TH + "mielensfunctions:MieLensCalculator._calculate_incident_field"],
             max_paths=40)(_mielens_covariance(_w))
    contract("C05", "mirror_" + _w, [TH + "mielens:MieLens.raw_fields", TH + "mielensfunctions:MieLensCalculator.calculate_scattered_field"],
             max_paths=40)(_mielens_mirror(_w))


@contract("C05", "mielens_phase_factor", [TH + "mielens:MieLens.raw_fields"])
def mielens_phase(c):
    """the propagation factor applied to the lens fields depends only on k*z of the particle: E = -exp(i kz) * (recombined fields)"""
    rho = c.real("krho", nonneg=True, sample=(0, 30))
    phi = c.angle("phi", lo=0, hi=2 * c.pi)
    kz1, kz2 = c.real("kz1", sample=(-30, 30)), c.real("kz2", sample=(-30, 30))
    m, x = c.real("index_ratio", pos=True, sample=(1.05, 1.6)), c.real("size_parameter", pos=True, sample=(1, 10))
    c.requires(rho < 390)
    with mielens_kernels() as rec:
        th = MieLens(lens_angle=0.9)
        E = c.call(_mielens_fields, c, th, rho, phi, kz1, 0, m, x)
    from contracts.kernels import opaque_complex
    i0 = opaque_complex("I0", [rho, kz1, m, x, 0.9])
    i2 = opaque_complex("I2", [rho, kz1, m, x, 0.9])
    if c.symbolic:
        ph = sym.SCplx(c.cos(kz1).e, c.sin(kz1).e)
    else:
        ph = np.exp(1j * kz1)
    c.ensures("x-component", c.eq(E[0][0], -ph * (0.5 * (i0 + i2 * c.cos(2 * phi)))))
    c.ensures("y-component", c.eq(E[1][0], -ph * (0.5 * i2 * c.sin(2 * phi))))


# the generic lens wrapper: what makes it covariant under rotation about the optical axis is that the wrapped theory's
# scattering matrix is taken at the LAB-frame pupil nodes while the polarization enters only through (phi_node - polarization angle)
# in the parallel / perpendicular integrands and the point's azimuth only through (phi_node - phi_point) in the prefactor.
# These formulas are contracts/C08.py:lens_integrand_pointwise; they are checked under this property as well.
from contracts.C08 import lens_integrand_pointwise as _lens_formulas          # noqa: E402
contract("C05", "lens_integrand_formulas", [TH + "lens:Lens._integrand_prefactor", TH + "lens:Lens._integrand_prll", TH + "lens:Lens._integrand_perp"])(
    _lens_formulas.fn if hasattr(_lens_formulas, 'fn') else _lens_formulas)
