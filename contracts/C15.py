"""C15  HoloPy objects survive save -> load unchanged."""
import inspect
import operator

import numpy as np
import xarray as xr
import yaml

from pyvc.contract import contract
from pyvc import sym
from holopy.core.holopy_object import HoloPyObject
from holopy.core.io import serialize
from holopy.core.prior import Uniform, Gaussian, BoundedGaussian, ComplexPrior, TransformedPrior
from holopy.scattering.scatterer import (Sphere, Spheres, Scatterers, Ellipsoid, Spheroid, Cylinder, Capsule, Bisphere,
                                         JanusSphere_Uniform, LayeredSphere, Union, Difference, Intersection)
from holopy.scattering.scatterer.janus import JanusSphere_Tapered
from holopy.scattering.scatterer.spherecluster import RigidCluster
from holopy.scattering.theory import MieLens, Mie, Multisphere, Tmatrix
from holopy.scattering.theory.mielens import AberratedMieLens
from holopy.scattering.theory.lens import Lens
from holopy.inference.model import AlphaModel, ExactModel, LimitOverlaps
from holopy.inference.nmpfit import NmpfitStrategy
from holopy.inference.scipyfit import LeastSquaresScipyStrategy
from holopy.inference.emcee import EmceeStrategy, TemperedStrategy
from holopy.inference.cmaes import CmaStrategy
from contracts.C09 import deployed

HO = "holopy.core.holopy_object:"
META = {
    'out_of_reach': ["the YAML text layer as a parser/emitter (PyYAML) and files / streams: external; the text round trip is exercised "
                     "natively on sampled values with the real PyYAML (conformance), the proof is about the data flow "
                     "constructor arguments -> object state -> _dict -> cls(**_dict)",
                     "custom representers for numpy scalars, tuples, ufuncs and complex numbers as PARSERS (PyYAML internals)"],
    'assumptions': ["PyYAML dump/load is the identity on the mapping of constructor arguments (plain scalars, lists, dicts, nested HoloPy objects)",
                    "the classes and constructor-argument choices are enumerated from a table covering every serialisable class family "
                    "(scatterers incl. nested and CSG, priors incl. complex / derived / numpy-function ones, theories, strategies, "
                    "constraints, models): bounded in structure, symbolic in the numeric values"],
}


def _R(c, name, **k):
    return c.real(name, **k)


def _factories(c):
    """name -> (class, kwargs) with symbolic numeric values"""
    R = lambda n, **k: _R(c, n, **k)
    cen = lambda p: [R(p + "x", sample=(-2, 2)), R(p + "y", sample=(-2, 2)), R(p + "z", sample=(1, 9))]
    f = {}
    f["Sphere"] = (Sphere, dict(n=R("n", sample=(1.1, 2)), r=R("r", nonneg=True, sample=(0.1, 1)), center=cen("c")))
    f["Sphere-layered"] = (Sphere, dict(n=[R("n0", sample=(1.1, 2)), R("n1", sample=(1.1, 2))],
                                        r=[R("r0", nonneg=True, sample=(0.1, 1)), R("r1", nonneg=True, sample=(0.1, 1))], center=cen("c")))
    f["LayeredSphere"] = (LayeredSphere, dict(n=[R("n0", sample=(1.1, 2)), R("n1", sample=(1.1, 2))],
                                              t=[R("t0", nonneg=True, sample=(0.1, 1)), R("t1", nonneg=True, sample=(0.1, 1))], center=cen("c")))
    f["Ellipsoid"] = (Ellipsoid, dict(n=R("n", sample=(1.1, 2)), r=[R("a", pos=True, sample=(0.1, 1)), R("b", pos=True, sample=(0.1, 1)), R("cc", pos=True, sample=(0.1, 1))],
                                      center=cen("c"), rotation=[R("al"), R("be"), R("ga")]))
    f["Spheroid"] = (Spheroid, dict(n=R("n", sample=(1.1, 2)), r=[R("a", pos=True, sample=(0.1, 1)), R("b", pos=True, sample=(0.1, 1))],
                                    rotation=[R("al"), R("be"), R("ga")], center=cen("c")))
    for nm, cls in (("Cylinder", Cylinder), ("Capsule", Capsule), ("Bisphere", Bisphere)):
        f[nm] = (cls, dict(n=R("n", sample=(1.1, 2)), h=R("h", pos=True, sample=(0.1, 1)), d=R("d", pos=True, sample=(0.1, 1)),
                           center=cen("c"), rotation=[R("al"), R("be"), R("ga")]))
    f["JanusSphere_Uniform"] = (JanusSphere_Uniform, dict(n=[R("n0", sample=(1.1, 2)), R("n1", sample=(1.1, 2))],
                                                         r=[R("r0", nonneg=True, sample=(0.1, 1)), R("r1", nonneg=True, sample=(0.1, 1))],
                                                         rotation=[R("al"), R("be"), R("ga")], center=cen("c")))
    f["JanusSphere_Tapered"] = (JanusSphere_Tapered, dict(n=[R("n0", sample=(1.1, 2)), R("n1", sample=(1.1, 2))],
                                                         r=[R("r0", nonneg=True, sample=(0.1, 1)), R("r1", nonneg=True, sample=(0.1, 1))],
                                                         rotation=[R("al"), R("be")], center=cen("c")))
    nc = c.complex("n_complex")
    nc2 = c.complex("n_complex2")
    if not c.symbolic:
        nc, nc2 = np.complex128(complex(1.2 + abs(nc.real) % 1, -abs(nc.imag) % 0.5 - 0.01)), np.complex128(complex(1.3, abs(nc2.imag) % 0.5))
    f["Sphere-complex-index"] = (Sphere, dict(n=nc, r=R("r", nonneg=True, sample=(0.1, 1)), center=cen("c")))
    f["LayeredSphere-complex-indices"] = (LayeredSphere, dict(n=np.array([nc, nc2], dtype=object if c.symbolic else complex),
                                                              t=[R("t0", nonneg=True, sample=(0.1, 1)), R("t1", nonneg=True, sample=(0.1, 1))], center=cen("c")))
    f["Uniform"] = (Uniform, dict(lower_bound=R("lo", sample=(-1, 0)), upper_bound=R("lo", sample=(-1, 0)) + R("w", pos=True, sample=(0.1, 2)), name='par'))
    f["Uniform-guess"] = (Uniform, dict(lower_bound=-1.0, upper_bound=2.0, guess=R("g", lo=-1, hi=2)))
    f["Gaussian"] = (Gaussian, dict(mu=R("mu"), sd=R("sd", pos=True, sample=(0.1, 2)), name='g'))
    f["BoundedGaussian"] = (BoundedGaussian, dict(mu=R("mu", lo=0, hi=1), sd=R("sd", pos=True, sample=(0.1, 2)), lower_bound=0.0, upper_bound=1.0))
    f["ComplexPrior"] = (ComplexPrior, dict(real=Uniform(1.0, 2.0), imag=R("im", sample=(0, 0.1))))
    f["LimitOverlaps"] = (LimitOverlaps, dict(fraction=R("fraction", nonneg=True, sample=(0, 1))))
    f["MieLens"] = (MieLens, dict(lens_angle=R("lens", pos=True, sample=(0.2, 1.2))))
    f["AberratedMieLens"] = (AberratedMieLens, dict(spherical_aberration=[R("ab0"), R("ab1")], lens_angle=R("lens", pos=True, sample=(0.2, 1.2))))
    f["Mie"] = (Mie, dict(compute_escat_radial=False, full_radial_dependence=True, eps1=R("eps1", pos=True, sample=(1e-3, 1e-1))))
    f["Multisphere"] = (Multisphere, dict(niter=150, eps=R("eps", pos=True, sample=(1e-7, 1e-5)), meth=0, compute_escat_radial=True))
    f["Tmatrix"] = (Tmatrix, dict())
    f["Lens"] = (Lens, dict(lens_angle=R("lens", pos=True, sample=(0.2, 1.2)), theory=MieLens(lens_angle=0.7), quad_npts_theta=50, use_numexpr=False))
    f["NmpfitStrategy"] = (NmpfitStrategy, dict(npixels=200, quiet=False, ftol=R("ftol", pos=True, sample=(1e-12, 1e-8)), maxiter=50, seed=3))
    f["NmpfitStrategy-damp"] = (NmpfitStrategy, dict(damp=R("damp", pos=True, sample=(0.1, 2))))
    f["LeastSquaresScipyStrategy"] = (LeastSquaresScipyStrategy, dict(ftol=R("ftol", pos=True, sample=(1e-12, 1e-8)), max_nfev=30, npixels=100))
    f["EmceeStrategy"] = (EmceeStrategy, dict(nwalkers=40, nsamples=200, npixels=100, parallel=None, seed=5))
    f["CmaStrategy"] = (CmaStrategy, dict(npixels=100, popsize=12, resample_pixels=False, parent_fraction=R("pf", pos=True, sample=(0.1, 0.5)), seed=4,
                                          parallel=None))
    f["TemperedStrategy"] = (TemperedStrategy, dict(nwalkers=30, nsamples=50, npixels=400, stages=2, stage_len=10, seed=7, parallel=None))
    return f


def _norm(v):
    """documented normal form of a stored argument: arrays / tuples come back as lists"""
    if isinstance(v, np.ndarray):
        return [_norm(x) for x in v.tolist()] if v.dtype != object else [_norm(x) for x in v]
    if isinstance(v, (list, tuple)):
        return [_norm(x) for x in v]
    return v


def _same(c, a, b):
    a, b = _norm(a), _norm(b)
    if isinstance(a, list) or isinstance(b, list):
        if not (isinstance(a, list) and isinstance(b, list)) or len(a) != len(b):
            return False
        return c.and_(True, *[_same(c, x, y) for x, y in zip(a, b)])
    if isinstance(a, HoloPyObject) or isinstance(b, HoloPyObject):
        if type(a) is not type(b):
            return False
        da, db = a._dict, b._dict
        return set(da) == set(db) and c.and_(True, *[_same(c, da[k], db[k]) for k in da])
    if isinstance(a, dict) or isinstance(b, dict):
        return isinstance(a, dict) and isinstance(b, dict) and set(a) == set(b) and c.and_(True, *[_same(c, a[k], b[k]) for k in a])
    if callable(a) or callable(b):
        return a is b
    return c.eq(a, b)


NAMES = ["Sphere", "Sphere-complex-index", "LayeredSphere-complex-indices", "Sphere-layered", "LayeredSphere", "Ellipsoid", "Spheroid", "Cylinder", "Capsule", "Bisphere", "JanusSphere_Uniform",
         "JanusSphere_Tapered", "Uniform", "Uniform-guess", "Gaussian", "BoundedGaussian", "ComplexPrior", "LimitOverlaps", "MieLens",
         "AberratedMieLens", "Mie", "Multisphere", "Tmatrix", "Lens", "NmpfitStrategy", "NmpfitStrategy-damp", "LeastSquaresScipyStrategy",
         "EmceeStrategy", "CmaStrategy", "TemperedStrategy"]


def _state_contract(name):
    def body(c):
        with deployed():
            cls, kw = _factories(c)[name]
            obj = c.call(cls, **kw)
            state = c.call(lambda: obj._dict)
            for k, v in kw.items():
                c.ensures("argument-kept-as-state", (k in state) and _same(c, state[k], v), detail=k)
            clone = c.call(cls, **state)
            c.ensures("reload-rebuilds-the-same-state", _same(c, clone._dict, state))
            c.ensures("library-equality-holds", bool(clone == obj) if not c.symbolic else _same(c, clone._dict, obj._dict))
            # the YAML text layer is PyYAML's: evaluated on native runs only (reported as bounded, not proved)
            text = back = None
            if not c.symbolic:
                text = yaml.dump(obj)
                back = yaml.load(text, Loader=yaml.FullLoader)
            c.native_ensures("yaml-text-reloads-to-the-same-state", lambda: _same(c, back._dict, state))
            c.native_ensures("yaml-text-identical-after-reload", lambda: yaml.dump(back) == text)
    body.__doc__ = "%s: every constructor argument is kept as state, and cls(**state) rebuilds an equal object (same state, idempotent)" % name
    return body


for _n in NAMES:
    contract("C15", "state_" + _n.replace('-', '_'), [HO + "HoloPyObject._iteritems", HO + "HoloPyObject._dict", HO + "HoloPyObject.from_yaml",
                                                     HO + "HoloPyObject.to_yaml", HO + "HoloPyObject.__eq__"])(_state_contract(_n))


def _none_cases():
    """(label, class, base kwargs, parameter set to None) for every parameter with a non-None default that accepts None"""
    return [
        ("EmceeStrategy.parallel", EmceeStrategy, dict(nwalkers=20, nsamples=10), "parallel"),
        ("CmaStrategy.parallel", CmaStrategy, dict(popsize=8), "parallel"),
        ("TemperedStrategy.parallel", TemperedStrategy, dict(nwalkers=20, nsamples=10, npixels=100, stages=1), "parallel"),
        ("Ellipsoid.center", Ellipsoid, dict(n=1.5, r=(1., 2., 3.)), "center"),
        ("NmpfitStrategy.damp", NmpfitStrategy, dict(), "damp"),                 # defaults that are falsy but not None
        ("NmpfitStrategy.quiet", NmpfitStrategy, dict(), "quiet"),
        ("MieLens.calculator_accuracy_kwargs", MieLens, dict(lens_angle=0.8), "calculator_accuracy_kwargs"),
        ("Multisphere.compute_escat_radial", Multisphere, dict(), "compute_escat_radial"),
        ("CmaStrategy.tols", CmaStrategy, dict(popsize=8, tols={}), "seed"),
        ("Spheres.warn", Spheres, dict(scatterers=[Sphere(n=1.5, r=0.5, center=(0, 0, 1))]), "warn"),
    ]


@contract("C15", "explicit_none_survives", [HO + "HoloPyObject._iteritems", HO + "HoloPyObject.from_yaml"])
def explicit_none(c):
    """an argument explicitly set to None is still None after save -> load (it must not silently turn back into a non-None default)"""
    label, cls, kw, par = c.choice("case", _none_cases())
    with deployed():
        obj = c.call(cls, **dict(kw, **{par: None}))
        clone = c.call(cls, **obj._dict)
    c.ensures("attribute-is-none", getattr(obj, par) is None)
    c.ensures("none-after-reload", getattr(clone, par) is None, detail=label)
    back = None
    if not c.symbolic:
        with deployed():
            back = yaml.load(yaml.dump(obj), Loader=yaml.FullLoader)
    c.native_ensures("none-after-yaml-text", lambda: getattr(back, par) is None, detail=label)


@contract("C15", "nested_and_derived", [HO + "HoloPyObject._iteritems", HO + "HoloPyObject.from_yaml"],
          patches=[("holopy.scattering.scatterer.spherecluster", "Spheres.overlaps", property(lambda self: []))])
def nested_and_derived(c):
    """nested scatterers, CSG, rigid clusters and derived priors rebuild equal objects from their state"""
    R = lambda n, **k: c.real(n, **k)
    s0 = Sphere(n=R("n0", sample=(1.1, 2)), r=R("r0", nonneg=True, sample=(0.1, 1)), center=[R("x0"), R("y0"), R("z0", sample=(1, 9))])
    s1 = Sphere(n=s0.n, r=R("r1", nonneg=True, sample=(0.1, 1)), center=[R("x1"), R("y1"), R("z1", sample=(1, 9))])
    which = c.choice("object", ["spheres", "scatterers-nested", "union", "difference", "rigid-cluster", "derived-prior", "ufunc-prior",
                                "complex-of-priors"])
    if which == "spheres":
        obj = Spheres([s0, s1], warn=False)
    elif which == "scatterers-nested":
        obj = Scatterers([s0, Scatterers([s1])])
    elif which == "union":
        obj = Union(s0, s1)
    elif which == "difference":
        obj = Difference(s0, s1)
    elif which == "rigid-cluster":
        obj = RigidCluster(Spheres([s0, s1], warn=False), translation=(R("tx"), R("ty"), R("tz")), rotation=(R("al"), R("be"), R("ga")))
    elif which == "derived-prior":
        obj = Uniform(0.0, 1.0) * R("k", nonzero=True, sample=(0.5, 3)) + 2.0
    elif which == "ufunc-prior":
        obj = np.sqrt(Uniform(1.0, 2.0, name='base'))
    else:
        obj = ComplexPrior(Uniform(1.0, 2.0), Gaussian(0.01, 0.001))
    state = obj._dict
    clone = c.call(type(obj), **state)
    c.ensures("reload-rebuilds-the-same-state", _same(c, clone._dict, state))
    c.ensures("same-class", type(clone) is type(obj))
    if which in ("derived-prior", "ufunc-prior", "complex-of-priors"):
        c.ensures("guess-preserved", c.eq(clone.guess if which != "complex-of-priors" else clone.guess.real,
                                          obj.guess if which != "complex-of-priors" else obj.guess.real))


@contract("C15", "model_reload", ["holopy.inference.model:Model._iteritems", "holopy.inference.model:Model.from_yaml",
                                  "holopy.inference.model:Model.add_tie", "holopy.core.mapping:Mapper.map_xarray"], max_paths=60)
def model_reload(c):
    """a model rebuilt from its saved fields (dummy scatterer, theory, parameters, names, maps) - and, natively, from its YAML text -
    has the same parameter names, ties and value-to-place mapping as the original: collections with shared priors and a theory
    parameter, ties between theory parameters (with a new name), per-channel optics given as labelled arrays"""
    from contracts.common import AbstractPointTheory
    from holopy.scattering.theory.mielens import AberratedMieLens
    import xarray as xr
    kind = c.choice("model", ["collection with a shared prior and a theory parameter", "tie between theory parameters",
                              "per-channel optics as labelled arrays"])
    shared = Uniform(0.1, 1.0, name='radius')
    if kind == "collection with a shared prior and a theory parameter":
        sph = Spheres([Sphere(n=Uniform(1.2, 2.0), r=shared, center=(Uniform(-1, 1), 0.5, 5.0)),
                       Sphere(n=1.5, r=shared, center=(3.0, Gaussian(0.0, 0.1), 5.0))], warn=False)
        model = AlphaModel(sph, alpha=Uniform(0.5, 1.0), theory=MieLens(lens_angle=Uniform(0.2, 1.2)), noise_sd=0.1, medium_index=1.33,
                           illum_wavelen=0.66, illum_polarization=(1, 0), constraints=[LimitOverlaps(0.2)])
    elif kind == "tie between theory parameters":
        sph = Sphere(n=Uniform(1.2, 2.0), r=shared, center=(Uniform(-1, 1), 0.5, 5.0))
        model = AlphaModel(sph, alpha=Uniform(0.5, 1.0), theory=AberratedMieLens(spherical_aberration=Uniform(0.2, 1.2), lens_angle=Uniform(0.2, 1.2)),
                           noise_sd=0.1, medium_index=1.33, illum_wavelen=0.66, illum_polarization=(1, 0))
        model.add_tie(['spherical_aberration', 'lens_angle'], new_name='lens')
    else:
        sph = Sphere(n=Uniform(1.2, 2.0), r=shared, center=(Uniform(-1, 1), 0.5, 5.0))
        wl = xr.DataArray(np.array([Uniform(0.6, 0.7), 0.52], dtype=object), dims=['illumination'], coords={'illumination': ['red', 'green']})
        model = AlphaModel(sph, alpha=Uniform(0.5, 1.0), theory=MieLens(lens_angle=0.9), noise_sd=0.1, medium_index=1.33,
                           illum_wavelen=wl, illum_polarization=(1, 0))
    fields = dict(model._iteritems())

    class FakeLoader:
        def construct_mapping(self, node, deep=True):
            return dict(node)
    again = c.call(AlphaModel.from_yaml, FakeLoader(), fields)
    candidates = [("rebuilt from the saved fields", again)]
    if not c.symbolic:
        text = yaml.dump(model)
        candidates.append(("reloaded from the YAML text", yaml.load(text, Loader=yaml.FullLoader)))
    vals = [c.real("v%d" % k, nonneg=True, sample=(0.3, 0.9)) for k in range(len(model._parameters))]
    b = c.call(model.scatterer_from_parameters, vals)
    members = (lambda s: s.scatterers if hasattr(s, 'scatterers') else [s])
    for label, other in candidates:
        c.ensures("parameter-names", other._parameter_names == model._parameter_names, detail=label)
        c.ensures("parameters-equal", len(other._parameters) == len(model._parameters)
                  and all(x == y for x, y in zip(other._parameters, model._parameters)), detail=label)
        c.ensures("maps-equal", other._maps == model._maps, detail=label)
        a = c.call(other.scatterer_from_parameters, vals)
        for sa, sb in zip(members(a), members(b)):
            c.ensures("same-value-to-place-mapping", c.and_(c.eq(sa.n, sb.n), c.eq(sa.r, sb.r),
                                                            c.eq(np.array(sa.center, dtype=object), np.array(sb.center, dtype=object))), detail=label)
        if kind == "collection with a shared prior and a theory parameter":
            c.ensures("tie-kept", c.eq(a.scatterers[0].r, a.scatterers[1].r), detail=label)
        ta, tb = other.theory_from_parameters(vals), model.theory_from_parameters(vals)
        c.ensures("theory-parameter-kept", c.eq(ta.lens_angle, tb.lens_angle), detail=label)
        if kind == "tie between theory parameters":
            c.ensures("theory-tie-and-its-name-kept", c.and_('lens' in other._parameter_names, c.eq(ta.spherical_aberration, ta.lens_angle),
                                                           c.eq(ta.spherical_aberration, tb.spherical_aberration)), detail=label)
        if kind == "per-channel optics as labelled arrays":
            oa, ob = other._find_optics(vals, None)['illum_wavelen'], model._find_optics(vals, None)['illum_wavelen']
            c.ensures("per-channel-optics-kept", c.and_(list(oa.illumination.values) == list(ob.illumination.values),
                                                        *[c.eq(oa.sel(illumination=k).item(), ob.sel(illumination=k).item()) for k in ('red', 'green')]),
                      detail=label)


@contract("C15", "bound_method_roundtrip", ["holopy.core.io.serialize:instancemethod_representer", "holopy.core.io.serialize:instancemethod_constructor"],
          native_only=True, bounded="native runs through the real PyYAML: bound methods of objects written with 0, 1, 2 or 3 arguments")
def bound_method_roundtrip(c):
    """a bound method saved as text reloads to the same method of an equal object, whatever the number of arguments its owner is
    written with"""
    r, frac, n = c.real("r", sample=(0.2, 2)), c.real("fraction", sample=(0.05, 0.9)), c.real("n", sample=(1.2, 2))
    owners = {"owner written with its default only": Sphere(), "one argument (constraint)": LimitOverlaps(frac),
              "one argument (sphere)": Sphere(r=r), "two arguments": Sphere(n=n, r=r), "three arguments": Sphere(n=n, r=r, center=[1.0, 2.0, 3.0]),
              "a collection": Spheres([Sphere(n=n, r=r, center=[0.0, 0.0, 5.0])], warn=False)}
    for label in sorted(owners):                     # every kind of owner on every run
        owner = owners[label]
        method = owner.check if isinstance(owner, LimitOverlaps) else owner.translated
        o = c.outcome(lambda: yaml.load(yaml.dump(method), Loader=yaml.FullLoader))
        c.ensures("reloads - " + label, o.ok, detail="%s: %r" % (label, o.exc))
        if o.ok:
            back = o.value
            c.ensures("same method of an equal object - " + label, back.__func__.__name__ == method.__func__.__name__
                      and type(back.__self__) is type(owner) and bool(back.__self__ == owner), detail=label)
