"""C13  Fitting: fixed point, monotone improvement, bound keeping, result bookkeeping, reuse.

The iterative optimisers (third_party/nmpfit.mpfit, scipy.optimize.least_squares) are *dependencies with an assumed
contract* (DESIGN.md 3.3 / section 7): a recording stand-in returns an ARBITRARY point that satisfies that contract, so
what is proved is that holopy's wiring around the optimiser - scaling / unscaling, limits, residual assembly, result
bookkeeping, clean-up - turns the optimiser's guarantee into the property's clauses for every such answer.

  assumed contract of a least-squares optimiser  O(f, x0, limits) -> x*  (listed in the evidence as unchecked):
    (A1) x* lies within the limits it was given (mpfit only; least_squares 'lm' takes none)
    (A2) |f(x*)|^2 <= |f(x0)|^2                (it never returns a point worse than its start)
    (A3) f(x0) = 0  ==>  x* = x0               (zero residual at the start: gradient is zero, it stops there)
    (A4) it is a deterministic function of (f, x0, limits, tolerances)
    (A0) x* is a point where f is defined (least_squares takes no limits: an answer with a negative radius, where the model
         raises InvalidScatterer, is not considered)
"""
import copy
import types

import numpy as np
import xarray as xr

from pyvc.contract import contract, Reject
from pyvc import sym
import holopy.inference.nmpfit as hn
import holopy.inference.scipyfit as hs
import holopy.inference.interface as hi
from holopy.inference.interface import fit as hi_fit
from holopy.inference.model import ExactModel, AlphaModel
from holopy.inference.nmpfit import NmpfitStrategy
from holopy.inference.scipyfit import LeastSquaresScipyStrategy
from holopy.inference.result import FitResult
from holopy.core.prior import Uniform, Gaussian, BoundedGaussian, Prior
from holopy.core.metadata import data_grid, detector_grid
from holopy.scattering.scatterer import Sphere, Spheres
from holopy.scattering.errors import MissingParameter, InvalidScatterer
from contracts.common import AbstractPointTheory
from contracts.kernels import opaque_real
from contracts.C14 import _STATS

NM = "holopy.inference.nmpfit:"
SF = "holopy.inference.scipyfit:"
RS = "holopy.inference.result:"
IF = "holopy.inference.interface:"
INF = float('inf')

META = {
    'out_of_reach': ["recovery of the generating parameters from a nearby start and convergence are properties of the optimiser's trajectory in "
                     "floating point (third_party/nmpfit.py, scipy least_squares); they enter as the assumed contract A1-A4 in contracts/C13.py",
                     "LeastSquaresScipyStrategy passes no bounds to scipy's 'lm' method, so bound keeping for that strategy depends on the "
                     "trajectory alone and is not decided here",
                     "a saved result reloading to an equivalent result goes through netCDF files (h5netcdf); the object-state half is C15"],
    'assumptions': ["assumed contract of the optimisers: A1 answer within the limits given (mpfit), A2 never worse than the start, A3 zero residual "
                    "at the start returns the start, A4 deterministic",
                    "the forward calculation is an opaque deterministic function of the scatterer's parameters (its value is C01's subject)",
                    "2x2 data images (bounded in shape); pixel values, noise level, prior bounds / guesses and the optimiser's answer are symbolic"],
}


# ------------------------------------------------------------------------------------------------ model under fit
class _OpaqueForward:
    """stand-in for the public hologram calculation: pixel (i, j) is an opaque deterministic function F_ij(n, r, x, y, z)"""

    def __init__(self):
        self.calls = []

    def __call__(self, detector, scatterer, **kw):
        self.calls.append((detector, scatterer, kw))
        args = [_sc(a) for a in [scatterer.n, scatterer.r] + list(scatterer.center)]
        flat = [opaque_real("F%d" % k, args) for k in range(int(np.prod(detector.shape)))]
        vals = np.empty(len(flat), dtype=object if sym.active() else float)
        for k, v in enumerate(flat):
            vals[k] = v
        return detector.copy(data=vals.reshape(detector.shape))


def _priors(c, x_choice=True):
    """one prior of every kind `minimize` distinguishes: bounded both sides, bounded below only (what fit(data, scatterer)
    builds), unbounded Gaussian, bounded Gaussian - bounds, guesses, widths symbolic"""
    lo_r, hi_r = c.real("r_lo", sample=(0.1, 0.4)), c.real("r_hi", sample=(0.8, 1.5))
    g_r = c.real("r_guess", sample=(0.4, 0.8))
    g_n = c.real("n_guess", sample=(1.3, 1.7))
    mu_x, sd_x = c.real("x_mu", sample=(-1, 1)), c.real("x_sd", pos=True, sample=(0.1, 1))
    mu_z, sd_z = c.real("z_mu", sample=(4, 6)), c.real("z_sd", pos=True, sample=(0.5, 2))
    lo_z, hi_z = c.real("z_lo", sample=(1, 3.9)), c.real("z_hi", sample=(6.1, 9))
    c.requires(c.and_(lo_r > 0, lo_r < g_r, g_r < hi_r, g_n > 0.01, lo_z > 0, lo_z < mu_z, mu_z < hi_z))
    # the in-plane position: an unbounded Gaussian, or a bounded Uniform whose guess may be NEGATIVE (the scale factor is |guess|)
    x_kind = c.choice("x_prior", ["gaussian", "bounded uniform"]) if x_choice else "gaussian"
    if x_kind == "gaussian":
        x_prior, x_bounds = Gaussian(mu_x, sd_x), (None, None)
    else:
        lo_x, hi_x = c.real("x_lo", sample=(-4, -2)), c.real("x_hi", sample=(2, 4))
        c.requires(c.and_(lo_x < mu_x, mu_x < hi_x))
        x_prior, x_bounds = Uniform(lo_x, hi_x, mu_x), (lo_x, hi_x)
    pri = dict(n=Uniform(0, INF, g_n), r=Uniform(lo_r, hi_r, g_r), x=x_prior,
               z=BoundedGaussian(mu_z, sd_z, lo_z, hi_z))
    bounds = dict(n=(0, None), r=(lo_r, hi_r), x=x_bounds, z=(lo_z, hi_z))
    return pri, bounds


NAMES = ['n', 'r', 'center.0', 'center.2']
KEYS = ['n', 'r', 'x', 'z']


def _model(c, fwd, sigma, x_choice=True):
    pri, bounds = _priors(c, x_choice)
    sph = Sphere(n=pri['n'], r=pri['r'], center=(pri['x'], 0.4, pri['z']))
    model = ExactModel(sph, calc_func=fwd, theory=AbstractPointTheory(), noise_sd=sigma)
    return model, [pri[k] for k in KEYS], [bounds[k] for k in KEYS]


def _image(c, prefix="d"):
    vals = np.empty((2, 2), dtype=object if c.symbolic else float)
    for i in range(2):
        for j in range(2):
            vals[i, j] = c.real("%s%d%d" % (prefix, i, j), sample=(0.5, 1.5))
    return data_grid(vals, spacing=0.1, medium_index=1.33, illum_wavelen=0.66, illum_polarization=(1, 0))


def _F(c, pars):
    """the forward image's pixels for parameter values (n, r, x, z), from the opaque kernel directly (row-major)"""
    n, r, x, z = pars
    return [opaque_real("F%d" % k, [n, r, x, 0.4, z]) for k in range(4)]


def _lnp(c, prior, bound, v):
    """documented log-density up to the constant that cancels in (lnprior(guess) - lnprior(v)), inside the support"""
    if isinstance(prior, Gaussian):
        return -(v - prior.mu) ** 2 / (2 * prior.sd ** 2)
    return 0


def _misfit(c, pars, data, sigma):
    d = list(data.values.ravel())
    return sum(((f - y) / sigma) ** 2 for f, y in zip(_F(c, pars), d))


# ------------------------------------------------------------------------------------------- the abstract optimiser
class _Optimiser:
    """recording stand-in for mpfit / least_squares obeying A1-A4.  Symbolically its answer is a tuple of fresh reals
    constrained by A1-A3; natively it is a real (if simple-minded) optimiser: it tries one candidate, keeps it when it
    lies within the limits and is no worse than the start, and otherwise returns the start."""

    def __init__(self, c, npar):
        self.c = c
        self.npar = npar
        self.calls = []

    def _answer(self, fcn, x0, limits):
        c, k = self.c, len(self.calls)
        names = ["opt%d_%d" % (k, i) for i in range(len(x0))]
        r0 = list(fcn(x0))
        if len(self.calls) >= 1 and self.calls[0]['same_as'](x0, limits):
            xs = list(self.calls[0]['answer'])                 # A4: same question, same answer
            r1 = list(fcn(xs))
        elif c.symbolic or all(n in c.given for n in names):
            # the optimiser's own precondition is the CALLER's obligation - stated here, before anything about the answer is assumed
            # (an ill-formed question would make assumption A1 unsatisfiable and everything after it vacuous)
            for x0_, (lo, hi) in zip(x0, limits):
                if lo is not None and hi is not None:
                    c.ensures("lower-limit-below-upper-limit", c.lt(lo, hi, tol=0))
                c.ensures("start-within-the-limits", c.and_(True if lo is None else c.ge(x0_, lo), True if hi is None else c.le(x0_, hi)))
            xs = [c.real(n) for n in names]
            for x, (lo, hi) in zip(xs, limits):                 # A1
                if lo is not None:
                    c.requires(x >= lo)
                if hi is not None:
                    c.requires(x <= hi)
            try:
                r1 = list(fcn(xs))
            except InvalidScatterer:
                raise Reject("A0: the optimiser's answer is a point where the model is defined")
            c.requires(c.le(sum(r * r for r in r1), sum(r * r for r in r0)))          # A2
            zero = c.and_(*[c.eq(r, 0, tol=0) for r in r0])
            c.requires(c.implies(zero, c.and_(*[c.eq(a, b, tol=0) for a, b in zip(xs, x0)])))   # A3
        else:
            s0 = sum(float(r) ** 2 for r in r0)
            xs, best = list(x0), s0
            for _ in range(6 if s0 > 0 else 0):
                cand = [x * (1 + c.rng.uniform(-0.03, 0.03)) + c.rng.uniform(-0.01, 0.01) for x in x0]
                cand = [min(max(x, lo if lo is not None else -INF), hi if hi is not None else INF) for x, (lo, hi) in zip(cand, limits)]
                try:
                    s1 = sum(float(r) ** 2 for r in fcn(cand))
                except InvalidScatterer:
                    continue
                if np.isfinite(s1) and s1 <= best:
                    xs, best = cand, s1
            r1 = list(fcn(xs))
            for n, x in zip(names, xs):
                c.values[n] = float(x)
                c.declared.append(n)
        x0c, limc = list(x0), list(limits)
        self.calls.append(dict(x0=x0c, limits=limc, answer=list(xs), r0=r0, r1=r1,
                               same_as=lambda a, b: self._same(a, x0c) and all(self._same([p for p in u if p is not None], [p for p in v if p is not None])
                                                                               and [p is None for p in u] == [p is None for p in v] for u, v in zip(b, limc))))
        return xs

    def _same(self, a, b):
        """syntactic (canonical-form) equality symbolically, numeric equality natively - never a fork"""
        if len(a) != len(b):
            return False
        for x, y in zip(a, b):
            r = self.c.eq(x, y, tol=0)
            if not (r is True or (not self.c.symbolic and bool(r))):
                return False
        return True

    # -- the two entry points holopy calls
    def mpfit(self, fcn, parinfo=None, **kw):
        self.kw = kw
        self.parinfo = copy.deepcopy(parinfo) if not self.c.symbolic else [dict(d, limited=list(d['limited']), limits=list(d['limits'])) for d in parinfo]
        x0 = [d['value'] for d in parinfo]
        limits = [(d['limits'][0] if d['limited'][0] else None, d['limits'][1] if d['limited'][1] else None) for d in parinfo]

        def f(x):
            status, out = fcn(np.array(list(x), dtype=object if self.c.symbolic else float))
            return out
        xs = self._answer(f, x0, limits)
        return types.SimpleNamespace(params=np.array(xs, dtype=object if self.c.symbolic else float), status=1, perror=None,
                                     niter=1, fnorm=0.0)

    def least_squares(self, fun, x0, **kw):
        self.kw = kw
        x0 = list(x0)

        def f(x):
            return fun(np.array(list(x), dtype=object if self.c.symbolic else float))
        xs = self._answer(f, x0, [(None, None)] * len(x0))
        jac = np.vstack([np.eye(len(x0)), np.zeros((max(0, 4 - len(x0)), len(x0)))])
        return types.SimpleNamespace(x=np.array(xs, dtype=object if self.c.symbolic else float), success=True, jac=jac, status=1)


def _install(c, opt):
    saved = (hn.nmpfit, hs.least_squares)
    hn.nmpfit = types.SimpleNamespace(mpfit=opt.mpfit)
    hs.least_squares = opt.least_squares
    return saved


def _restore(saved):
    hn.nmpfit, hs.least_squares = saved


_A0 = 1


def _public_state(obj):
    """the strategy's settings (constructor arguments); private scratch attributes such as _minimizer_info are not settings"""
    return {k: v for k, v in obj.__dict__.items() if not k.startswith('_')}


def _sc(v):
    """a 0-d array holding a scalar -> the scalar"""
    return v.item() if isinstance(v, np.ndarray) and v.ndim == 0 else v


# ----------------------------------------------------------------------------------------------------- contracts
def _fit_contract(kind, part):
    """part 'wiring': one fit, what the optimiser is asked and what is reported; part 'reuse': two fits on the same objects"""
    def body(c):
        fwd = _OpaqueForward()
        sigma = c.real("sigma", pos=True, sample=(0.05, 0.5))
        model, priors, bounds = _model(c, fwd, sigma, x_choice=(kind == "nmpfit" and part == "wiring"))
        data = _image(c)
        data_before = data.values.copy()
        strategy = NmpfitStrategy() if kind == "nmpfit" else LeastSquaresScipyStrategy()
        state_before = dict(_public_state(strategy))
        pars_before = list(model._parameters)
        guesses = [p.guess for p in priors]
        opt = _Optimiser(c, 4)
        saved = _install(c, opt)
        try:
            result = c.call(strategy.fit, model, data)
            again = c.call(strategy.fit, model, data) if part == "reuse" else None
        finally:
            _restore(saved)
        first = opt.calls[0]
        sf = [p.scale_factor for p in priors]
        got = result.parameters
        rep = [_sc(got[k]) for k in NAMES]
        if part == "reuse":
            second = opt.calls[1]
            c.ensures("strategy-settings-left-as-they-were", _public_state(strategy) == state_before)
            c.ensures("model-parameters-untouched", c.and_(all(a is b for a, b in zip(model._parameters, pars_before)), len(model._parameters) == 4,
                                                           *[c.eq(p.guess, g) for p, g in zip(model._parameters, guesses)]))
            c.ensures("data-untouched", c.eq(data.values, data_before))
            c.ensures("second-fit-asks-the-same-question", c.and_(c.and_(*[c.eq(a, b, tol=0) for a, b in zip(second['x0'], first['x0'])]),
                                                                  c.and_(*[c.eq(a, b, tol=0) for a, b in zip(second['r0'], first['r0'])]),
                                                                  len(second['r0']) == len(first['r0'])))
            c.ensures("repeatable", c.and_(*[c.eq(_sc(again.parameters[k]), _sc(got[k]), tol=0) for k in NAMES]))
            c.ensures("second-result-refers-to-the-same-objects", again.model is model and again.strategy is strategy)
            return
        # --- what the optimiser was asked
        c.ensures("starts-from-the-guess", c.and_(*[c.eq(x * s, g) for x, s, g in zip(first['x0'], sf, guesses)]))
        if kind == "nmpfit":
            for (lo, hi), (blo, bhi), s in zip(first['limits'], bounds, sf):
                c.ensures("limits-are-the-priors-bounds", c.and_((lo is None) == (blo is None), (hi is None) == (bhi is None),
                                                                 True if blo is None or lo is None else c.eq(lo * s, blo),
                                                                 True if bhi is None or hi is None else c.eq(hi * s, bhi)))
                if lo is not None and hi is not None and not c.symbolic:
                    c.ensures("lower-limit-below-upper-limit", c.lt(lo, hi, tol=0))
            if not c.symbolic:          # (symbolically these two are stated inside the optimiser stand-in, before its answer is assumed)
                for x0_, (lo, hi) in zip(first['x0'], first['limits']):
                    c.ensures("start-within-the-limits", c.and_(True if lo is None else c.ge(x0_, lo), True if hi is None else c.le(x0_, hi)))
        # --- what comes back
        c.ensures("parameter-names-are-the-models", list(got) == NAMES and result._names == NAMES and list(model.parameters) == NAMES)
        c.ensures("reported-parameters-are-the-optimisers-answer-unscaled", c.and_(*[c.eq(v, x * s) for v, x, s in zip(rep, first['answer'], sf)]))
        if kind == "nmpfit":
            for v, (blo, bhi) in zip(rep, bounds):
                c.ensures("within-prior-bounds", c.and_(True if blo is None else c.ge(v, blo), True if bhi is None else c.le(v, bhi)))
        if kind == "nmpfit":
            # stepping stones (each is proved, then available as a fact to the next): what the optimiser minimised is the data misfit plus
            # a penalty that vanishes at the guess and is never negative
            pen = sum((v - p.mu) ** 2 / (2 * p.sd ** 2) for v, p in zip(rep, priors) if isinstance(p, Gaussian))
            c.ensures("objective-at-the-guess-is-the-data-misfit", c.eq(sum(r * r for r in first['r0']), _misfit(c, guesses, data, sigma)))
            c.ensures("objective-at-the-answer-is-data-misfit-plus-prior-penalty",
                      c.eq(sum(r * r for r in first['r1']), _misfit(c, rep, data, sigma) + pen))
            c.ensures("prior-penalty-nonnegative", c.ge(pen, 0))
        c.ensures("misfit-not-worse-than-the-guess", c.le(_misfit(c, rep, data, sigma), _misfit(c, guesses, data, sigma)))
        noise_free = c.and_(*[c.eq(f, y, tol=0) for f, y in zip(_F(c, guesses), list(data.values.ravel()))])
        c.ensures("noise-free-data-from-the-guess-returns-the-guess", c.implies(noise_free, c.and_(*[c.eq(v, g) for v, g in zip(rep, guesses)])))
        holo = c.call(lambda: result.hologram)
        c.ensures("hologram-is-the-forward-model-at-the-reported-parameters", c.eq(holo.values.ravel(), np.array(_F(c, rep), dtype=object if c.symbolic else float)))
        c.ensures("hologram-equals-model-forward", c.eq(holo.values.ravel(), c.call(model.forward, dict(zip(NAMES, rep)), data).values.ravel()))
        c.ensures("max-lnprob-is-the-posterior-at-the-reported-parameters",
                  c.eq(c.call(lambda: result.max_lnprob), c.call(model.lnposterior, dict(zip(NAMES, rep)), data)))
        c.ensures("result-refers-to-model-data-strategy", c.and_(result.model is model, result.strategy is strategy,
                                                                 c.eq(result.data.values.ravel(), data_before.ravel())))
        c.canary("always-returns-the-guess", c.and_(*[c.eq(v, g) for v, g in zip(rep, guesses)]))
        c.canary("misfit-strictly-better", c.lt(_misfit(c, rep, data, sigma), _misfit(c, guesses, data, sigma)))
    body.__doc__ = ("%s.fit, for ANY answer of the optimiser allowed by A1-A4: starts from the guess, %sreports the optimiser's answer "
                    "unscaled under the model's parameter names, never a worse misfit than the guess, returns the guess for noise-free data "
                    "generated at the guess, best-fit hologram / log-probability are the forward model / posterior at the reported values, "
                    "model, data and strategy are left reusable and a second fit gives the same result"
                    % ("NmpfitStrategy" if kind == "nmpfit" else "LeastSquaresScipyStrategy",
                       "passes exactly the priors' bounds as limits so that the result stays within them, " if kind == "nmpfit" else ""))
    return body


NM_T = [NM + "NmpfitStrategy.fit", NM + "NmpfitStrategy.minimize", NM + "NmpfitStrategy.calc_residuals", NM + "NmpfitStrategy.initialize_fit",
        NM + "NmpfitStrategy.get_errors_from_minimizer", NM + "NmpfitStrategy.cleanup_from_fit", NM + "NmpfitStrategy.unscale_pars_from_minimizer",
        RS + "FitResult.__init__", RS + "FitResult.forward", "holopy.core.prior:Prior.scale", "holopy.core.prior:Prior.unscale"]
SF_T = [SF + "LeastSquaresScipyStrategy.fit", SF + "LeastSquaresScipyStrategy.minimize", SF + "LeastSquaresScipyStrategy.unscale_pars_from_minimizer",
        RS + "FitResult.__init__", RS + "FitResult.forward"]
for _k, _t in (("nmpfit", NM_T), ("scipy", SF_T)):
    for _p in ("wiring", "reuse"):
        contract("C13", "%s_%s" % (_k, _p), _t, patches=_STATS, max_paths=60 if _k == 'nmpfit' else 600, timeout_ms=60000)(_fit_contract(_k, _p))


# ------------------------------------------------------------------------------- fit(data, scatterer, parameters)
class _RecordingStrategy:
    def __init__(self):
        self.got = None

    def fit(self, model, data):
        self.got = (model, data)
        return "the strategy's result"


_FREE = [None, ['r', 'x'], ['x', 'y', 'z', 'r'], ['n'], 'r', ['center'], ['n', 'r', 'center']]


@contract("C13", "default_model", [IF + "fit", IF + "make_default_model", IF + "parameterize_scatterer", IF + "replace_center", IF + "make_uniform"],
          bounded="one sphere; the seven lists of free parameters in contracts/C13.py:_FREE; centre given as list, tuple or array", max_paths=800)
def default_model(c):
    """fit(data, sphere, parameters): the fitted model varies exactly the named parameters (all of them when none is named) plus the
    scaling alpha in [0.5, 1]; each starts at the sphere's own value; n and r are bounded below by 0; every other value is kept;
    the user's sphere is left as it was; the strategy's fit receives that model and the data and its result is returned"""
    from contracts.C09 import deployed
    kind = c.choice("center_given_as", ["list", "tuple", "array"])
    free = c.choice("free_parameters", _FREE)
    n, r = c.real("n", pos=True, sample=(1.2, 2)), c.real("r", pos=True, sample=(0.2, 1))
    xyz = [c.real("x", sample=(-3, 3)), c.real("y", sample=(-3, 3)), c.real("z", sample=(2, 9))]
    cen = list(xyz) if kind == "list" else tuple(xyz) if kind == "tuple" else np.array(xyz, dtype=object if c.symbolic else float)
    sph = Sphere(n=n, r=r, center=cen)
    data = _image(c)
    rec = _RecordingStrategy()
    with deployed():
        o = c.outcome(hi.fit, data, sph, free, rec)
    c.ensures("no-unexpected-exception", o.ok, detail=repr(o.exc))
    if not o.ok:
        return
    model = rec.got[0]
    c.ensures("strategy-receives-the-data-and-its-result-is-returned", rec.got[1] is data and o.value == "the strategy's result")
    value = dict(n=n, r=r, x=xyz[0], y=xyz[1], z=xyz[2])
    named = ['n', 'r', 'x', 'y', 'z'] if free is None else [free] if isinstance(free, str) else list(free)
    want = []
    for k in named:
        want += ['x', 'y', 'z'] if k == 'center' else [k]
    names = list(model._parameter_names)
    c.ensures("free-parameters-are-the-named-ones-plus-alpha", sorted(names) == sorted(want + ['alpha']) and names[-1] == 'alpha')
    pars = model.parameters
    c.ensures("each-starts-at-the-spheres-own-value", c.and_(*[c.eq(_sc(pars[k].guess), value[k]) for k in want if k in pars]))
    c.ensures("n-and-r-bounded-below-by-zero-the-rest-unbounded",
              all(isinstance(pars[k], Uniform) and pars[k].lower_bound == (0 if k in ('n', 'r') else -INF) and pars[k].upper_bound == INF
                  for k in want if k in pars))
    c.ensures("alpha-uniform-on-half-to-one", isinstance(pars.get('alpha'), Uniform) and pars['alpha'].lower_bound == 0.5 and pars['alpha'].upper_bound == 1)
    start = model.initial_guess_scatterer
    c.ensures("initial-guess-scatterer-is-the-users-sphere", c.and_(c.eq(_sc(start.n), n), c.eq(_sc(start.r), r),
                                                                   *[c.eq(_sc(a), b) for a, b in zip(start.center, xyz)]))
    c.ensures("users-sphere-left-as-it-was", c.and_(sph.n is n or c.eq(sph.n, n), c.eq(sph.r, r), type(sph.center) is type(cen),
                                                     not any(isinstance(v, Prior) for v in sph.center),
                                                     *[c.eq(a, b) for a, b in zip(sph.center, xyz)]))


@contract("C13", "strategy_selection", [IF + "validate_strategy", IF + "fit"])
def strategy_selection(c):
    """fit's strategy argument: None is the Levenberg-Marquardt (nmpfit) strategy, a name selects the strategy of that name, a class is
    instantiated, an instance is used as it is, and something that cannot fit is refused; a Model passed with a parameter list is used
    as it is (with a warning)"""
    which = c.choice("strategy", ["none", "name-nmpfit", "name-scipy", "name-cma", "class", "instance", "sampler", "not-a-strategy"])
    from holopy.inference.cmaes import CmaStrategy
    from holopy.inference.emcee import EmceeStrategy
    inst = LeastSquaresScipyStrategy(ftol=1e-3)
    arg = {"none": None, "name-nmpfit": "nmpfit", "name-scipy": "scipy lsq", "name-cma": "cma", "class": LeastSquaresScipyStrategy,
           "instance": inst, "sampler": EmceeStrategy(), "not-a-strategy": 3.0}[which]
    o = c.outcome(hi.validate_strategy, arg, 'fit')
    want = {"none": NmpfitStrategy, "name-nmpfit": NmpfitStrategy, "name-scipy": LeastSquaresScipyStrategy, "name-cma": CmaStrategy,
            "class": LeastSquaresScipyStrategy, "instance": LeastSquaresScipyStrategy}.get(which)
    if want is None:
        c.ensures("cannot-fit-is-refused", o.raised(ValueError))
        return
    c.ensures("strategy-of-the-requested-kind", o.ok and type(o.value) is want and not isinstance(o.value, type))
    if which == "instance":
        c.ensures("instance-used-as-it-is", o.value is inst)
    # a Model together with a parameter list: the model wins
    model = ExactModel(Sphere(n=Uniform(1, 2), r=Uniform(0.1, 1), center=[1.0, 2.0, 5.0]), calc_func=_OpaqueForward(),
                       theory=AbstractPointTheory(), noise_sd=0.1)
    rec = _RecordingStrategy()
    out = c.call(hi.fit, _image(c), model, ['r'], rec)
    c.ensures("model-used-as-it-is", rec.got[0] is model)
    c.ensures("ignored-parameter-list-is-announced", any("Ignoring parameters" in str(e) for e in c.events()))


# --------------------------------------------------------------------------------- best-fit hologram of a subset fit
@contract("C13", "subset_result_hologram", [RS + "FitResult.forward", RS + "FitResult.hologram", RS + "FitResult.guess_hologram",
                                            "holopy.core.metadata:make_subset_data"],
          bounded="3x2 image; 3 of 6 pixels (two selections) or all 6; image origin at (0, 0) or at (6, 5)", timeout_ms=60000)
def subset_result_hologram(c):
    """the result of a fit on a random pixel subset reports its best-fit (and guess) hologram on the ORIGINAL image's grid: the same
    coordinates as the full image - also for a region of interest whose coordinates do not start at 0 - and, pixel by pixel, the
    forward model at the reported parameters on those coordinates"""
    from pyvc import shim
    from holopy.scattering.interface import calc_holo
    from holopy.core.metadata import make_subset_data
    from holopy.inference.result import UncertainValue
    ox, oy = c.choice("image_origin", [(0.0, 0.0), (6.0, 5.0)])
    sel = c.choice("selected_pixels", [[4, 0, 3], [1, 5, 2], [0, 1, 2, 3, 4, 5]])
    vals = np.empty((3, 2), dtype=object if c.symbolic else float)
    for i in range(3):
        for j in range(2):
            vals[i, j] = c.real("d%d%d" % (i, j), sample=(0.5, 1.5))
    image = data_grid(vals, spacing=0.5, medium_index=1.33, illum_wavelen=0.66, illum_polarization=(1, 0))
    image = image.assign_coords(x=image.x.values + ox, y=image.y.values + oy)
    shim._Random.scripted_choice = sel
    try:
        subset = c.call(make_subset_data, image, pixels=len(sel), seed=3)
    finally:
        shim._Random.scripted_choice = None
    sph = Sphere(n=Uniform(1.2, 2.0), r=Uniform(0.1, 1.5), center=[Uniform(ox - 2, ox + 3), oy + 0.4, Uniform(2.0, 9.0)])
    model = ExactModel(sph, calc_func=calc_holo, theory=AbstractPointTheory(), noise_sd=0.1)
    names = list(model._parameter_names)
    pars = [c.real("v_n", sample=(1.3, 1.9)), c.real("v_r", sample=(0.2, 1.2)), c.real("v_x", sample=(ox - 1, ox + 2)), c.real("v_z", sample=(3, 8))]
    c.requires(c.and_(pars[1] > 0, pars[0] > 0))
    res = FitResult(subset, model, LeastSquaresScipyStrategy(npixels=len(sel)), 0.0,
                    {'intervals': [UncertainValue(v, 0.0, name=nm) for v, nm in zip(pars, names)]})
    got = c.call(lambda: res.hologram)
    want = c.call(model.forward, dict(zip(names, pars)), image)
    c.ensures("on-the-original-images-grid", list(got.x.values) == list(image.x.values) and list(got.y.values) == list(image.y.values))
    c.ensures("forward-model-at-the-reported-parameters-on-that-grid",
              c.eq(got.transpose('x', 'y', 'z').values, want.transpose('x', 'y', 'z').values))
    guess = c.call(lambda: res.guess_hologram)
    c.ensures("guess-hologram-on-the-original-images-grid", list(guess.x.values) == list(image.x.values) and list(guess.y.values) == list(image.y.values))
    c.ensures("guess-hologram-is-the-forward-model-at-the-guess",
              c.eq(guess.transpose('x', 'y', 'z').values, c.call(model.forward, model.initial_guess, image).transpose('x', 'y', 'z').values))
    c.canary("hologram-independent-of-parameters", c.eq(got.transpose('x', 'y', 'z').values, guess.transpose('x', 'y', 'z').values))


# ------------------------------------------------------------------------- the real optimisers on a small smooth problem (native)
def _toy_forward(detector, scatterer, **kw):
    """a smooth, identifiable stand-in for the hologram calculation: rings centred on (x, 1.5) whose contrast, pitch and chirp are
    r, n and z"""
    if 'flat' in detector.dims or 'point' in detector.dims:        # a flattened / subset detector: one (x, y) per point
        X, Y = np.asarray(detector.x.values, dtype=float), np.asarray(detector.y.values, dtype=float)
    else:
        X, Y = np.meshgrid(np.asarray(detector.x.values, dtype=float), np.asarray(detector.y.values, dtype=float), indexing='ij')
    n, r = float(scatterer.n), float(scatterer.r)
    x, z = float(scatterer.center[0]), float(scatterer.center[2])
    rho2 = (X - x) ** 2 + (Y - 1.5) ** 2
    vals = 1 + r * np.cos(n * rho2 * 6.0 / z) * np.exp(-rho2 / z)
    return detector.copy(data=vals.reshape(detector.shape))


_TRUTHS = [dict(n=1.5587708783751293, r=0.37811741739995575, x=1.4170659643789274, z=5.977345793008315),
           dict(n=1.6563072511421222, r=0.5257787332960789, x=-1.910080642530168, z=5.831077036164981),
           dict(n=1.42, r=0.61, x=0.9, z=7.3)]
_GUESS_FACTORS = [dict(n=1.0205, r=1.0065, x=1.0096, z=0.98), dict(n=0.98, r=1.0172, x=1.0197, z=0.9707), dict(n=1.013, r=0.985, x=0.99, z=1.02)]
# every (truth, parameter, side): the start has that parameter exactly on that bound of its prior; evaluated on the FIRST native run of
# every check, so that the verdict about on-bound starts does not depend on the sample
FIXED_CASES = [(t, par, side) for t in range(3) for par in ('n', 'r', 'x', 'z') for side in ('lower', 'upper')]
_fixed_done = [False]


def _fixed_recovery_cases(c):
    if _fixed_done[0]:
        return
    _fixed_done[0] = True
    for t, par, side in FIXED_CASES:
        truth = _TRUTHS[t]
        guess = {k: truth[k] * _GUESS_FACTORS[t][k] for k in truth}
        lo = {k: min(0.5 * truth[k], 1.5 * truth[k]) for k in truth}
        hi = {k: max(0.5 * truth[k], 1.5 * truth[k]) for k in truth}
        if side == 'lower':
            guess[par] = min(guess[par], truth[par] - 0.02 * abs(truth[par]))
            lo[par] = guess[par]
        else:
            guess[par] = max(guess[par], truth[par] + 0.02 * abs(truth[par]))
            hi[par] = guess[par]
        pri = {k: Uniform(lo[k], hi[k], guess[k]) for k in truth}
        det = data_grid(np.zeros((10, 10)), spacing=0.3, medium_index=1.33, illum_wavelen=0.66, illum_polarization=(1, 0))
        det = det.assign_coords(x=(np.linspace(-3, 3, 10) if truth['x'] < 0 else np.linspace(0, 3, 10)))
        data = _toy_forward(det, Sphere(n=truth['n'], r=truth['r'], center=(truth['x'], 0.0, truth['z'])))
        model = ExactModel(Sphere(n=pri['n'], r=pri['r'], center=(pri['x'], 0.0, pri['z'])), calc_func=_toy_forward, theory=AbstractPointTheory(),
                           noise_sd=0.01)
        res = hi_fit(data, model, strategy=NmpfitStrategy())
        got = dict(zip(['n', 'r', 'x', 'z'], [float(_sc(v)) for v in res.parameters.values()]))
        c.ensures("nmpfit-recovers-from-a-start-on-a-bound: truth %d, %s on its %s bound" % (t, par, side),
                  all(abs(got[k] - truth[k]) <= 2e-4 * abs(truth[k]) for k in truth),
                  detail="truth %r; start %r; result %r" % (truth, guess, got))


@contract("C13", "fit_recovery_native", [NM + "NmpfitStrategy.fit", NM + "NmpfitStrategy.minimize", SF + "LeastSquaresScipyStrategy.fit",
                                         "holopy.inference.third_party.nmpfit:mpfit.__init__", IF + "fit"], native_only=True,
          bounded="native sampling: the REAL optimisers on a smooth four-parameter problem (10x10 noise-free image), starts within 3 % of the "
                  "truth, in the interior or exactly on a prior's lower / upper bound, positive and negative parameter values")
def fit_recovery_native(c):
    """with the real optimisers: fitting noise-free data generated by the model's own forward calculation from a start within a few
    percent recovers the generating parameters, never returns a worse misfit than the start, keeps every parameter within its
    prior's bounds, and a second fit of the same objects gives the same result - also when the start lies on a bound"""
    which = c.choice("strategy", ["nmpfit", "scipy lsq"])
    _fixed_recovery_cases(c)
    start = c.choice("start", ["interior", "a parameter on its upper bound", "a parameter on its lower bound", "from the truth"])
    x_sign = c.choice("in-plane position", ["positive", "negative"])
    truth = dict(n=c.real("n", sample=(1.3, 1.7)), r=c.real("r", sample=(0.3, 0.7)), x=c.real("x", sample=(0.8, 2.0)), z=c.real("z", sample=(4, 8)))
    if x_sign == "negative":
        truth['x'] = -truth['x']
    pert = {k: 1 + c.real("perturbation_" + k, sample=(-0.03, 0.03)) for k in truth}
    guess = {k: (truth[k] if start == "from the truth" else truth[k] * pert[k]) for k in truth}
    lo = {k: min(0.5 * truth[k], 1.5 * truth[k]) for k in truth}
    hi = {k: max(0.5 * truth[k], 1.5 * truth[k]) for k in truth}
    pegged = c.choice("parameter_on_the_bound", ["n", "r", "x", "z"])
    if start == "a parameter on its upper bound":
        hi[pegged] = guess[pegged] = max(guess[pegged], truth[pegged] * (1.02 if truth[pegged] > 0 else 0.98))
    if start == "a parameter on its lower bound":
        lo[pegged] = guess[pegged] = min(guess[pegged], truth[pegged] * (0.98 if truth[pegged] > 0 else 1.02))
    pri = {k: Uniform(lo[k], hi[k], guess[k]) for k in truth}
    xs = np.linspace(-3, 3, 10) if x_sign == "negative" else np.linspace(0, 3, 10)
    det = data_grid(np.zeros((10, 10)), spacing=0.3, medium_index=1.33, illum_wavelen=0.66, illum_polarization=(1, 0))
    det = det.assign_coords(x=xs)
    data = _toy_forward(det, Sphere(n=truth['n'], r=truth['r'], center=(truth['x'], 0.0, truth['z'])))
    model = ExactModel(Sphere(n=pri['n'], r=pri['r'], center=(pri['x'], 0.0, pri['z'])), calc_func=_toy_forward, theory=AbstractPointTheory(),
                       noise_sd=0.01)
    strategy = NmpfitStrategy() if which == "nmpfit" else LeastSquaresScipyStrategy()
    names = ['n', 'r', 'center.0', 'center.2']
    key = dict(zip(names, ['n', 'r', 'x', 'z']))
    o = c.outcome(hi_fit, data, model, strategy=strategy)
    c.ensures("no-unexpected-exception", o.ok, detail=repr(o.exc))
    if not o.ok:
        return
    res = o.value
    got = {key[k]: float(_sc(v)) for k, v in res.parameters.items()}
    c.ensures("parameter-names-are-the-models", list(res.parameters) == names)
    chi2 = (lambda p: float((((_toy_forward(det, Sphere(n=p['n'], r=p['r'], center=(p['x'], 0.0, p['z']))) - data) / 0.01) ** 2).sum()))
    c.ensures("misfit-not-worse-than-the-start", chi2(got) <= chi2(guess) * (1 + 1e-9) + 1e-12,
              detail="chi2 at the result %.6g, at the start %.6g" % (chi2(got), chi2(guess)))
    if which == "nmpfit":
        c.ensures("within-prior-bounds", all(lo[k] - 1e-12 * abs(lo[k]) <= got[k] <= hi[k] + 1e-12 * abs(hi[k]) for k in truth),
                  detail="result %r, bounds %r" % (got, {k: (lo[k], hi[k]) for k in truth}))
    if which == "scipy lsq" or start in ("interior", "from the truth"):
        # (for nmpfit, starts ON a bound are covered by the fixed cases above, deterministically)
        c.ensures("recovers-the-generating-parameters", all(abs(got[k] - truth[k]) <= 2e-4 * abs(truth[k]) for k in truth),
                  detail="start %s; truth %r, start values %r, result %r" % (start, truth, guess, got))
    again = hi_fit(data, model, strategy=strategy)
    c.ensures("repeatable", all(float(_sc(again.parameters[k])) == float(_sc(res.parameters[k])) for k in names))
    c.ensures("best-fit-hologram-is-the-forward-model", bool(np.allclose(np.sort(np.asarray(res.hologram.values, dtype=float).ravel()),
                                                                          np.sort(_toy_forward(det, Sphere(n=got['n'], r=got['r'], center=(got['x'], 0.0, got['z']))).values.ravel()))))


# a model is reusable on OTHER data: optics and noise are read from the data of each call (the contract is C12's; checked here as well)
from contracts.C12 import noise_precedence as _per_call_optics          # noqa: E402
contract("C13", "model_reusable_on_other_data", ["holopy.inference.model:Model._find_optics", "holopy.inference.model:Model._find_noise"],
         patches=_STATS)(_per_call_optics.fn if hasattr(_per_call_optics, 'fn') else _per_call_optics)


@contract("C13", "result_serialisation_is_read_only", [RS + "FitResult._serialize_as_dataset", RS + "FitResult.hologram", RS + "FitResult.guess_hologram",
                                                       RS + "FitResult._calculate_first_time"], native_only=True,
          bounded="native runs: a result on a 10x10 image with its best-fit and guess holograms computed before serialisation")
def result_serialisation_is_read_only(c):
    """preparing a result for saving does not change the result: its best-fit and guess holograms keep their values and metadata,
    the result still equals the forward model at the reported parameters, and it can be prepared for saving again"""
    from holopy.inference.result import UncertainValue
    truth = dict(n=c.real("n", sample=(1.3, 1.7)), r=c.real("r", sample=(0.3, 0.7)), x=c.real("x", sample=(0.8, 2.0)), z=c.real("z", sample=(4, 8)))
    pri = {k: Uniform(0.5 * v, 1.5 * v, v * 1.01) for k, v in truth.items()}
    det = data_grid(np.zeros((10, 10)), spacing=0.3, medium_index=1.33, illum_wavelen=0.66, illum_polarization=(1, 0), noise_sd=0.01)
    data = _toy_forward(det, Sphere(n=truth['n'], r=truth['r'], center=(truth['x'], 0.0, truth['z'])))
    model = ExactModel(Sphere(n=pri['n'], r=pri['r'], center=(pri['x'], 0.0, pri['z'])), calc_func=_toy_forward, theory=AbstractPointTheory())
    names = list(model._parameter_names)
    res = FitResult(data, model, NmpfitStrategy(), 0.5, {'intervals': [UncertainValue(truth[k], 0.01, name=nm)
                                                                         for k, nm in zip(['n', 'r', 'x', 'z'], names)]})
    holo, guess = res.hologram, res.guess_hologram
    snap = (lambda im: (np.array(im.values, copy=True), {k: (np.array(v.values, copy=True) if hasattr(v, 'values') else v) for k, v in im.attrs.items()}))
    same = (lambda a, b: bool(np.array_equal(a[0], b[0])) and set(a[1]) == set(b[1])
            and all(np.array_equal(np.asarray(a[1][k], dtype=object), np.asarray(b[1][k], dtype=object)) for k in a[1]))
    before_h, before_g = snap(holo), snap(guess)
    o1 = c.outcome(res._serialize_as_dataset)
    c.ensures("can-be-prepared-for-saving", o1.ok, detail=repr(o1.exc))
    c.ensures("best-fit-hologram-unchanged", same(snap(res.hologram), before_h),
              detail="attrs before %r, after %r" % ({k: type(v).__name__ for k, v in before_h[1].items()}, {k: type(v).__name__ for k, v in res.hologram.attrs.items()}))
    c.ensures("guess-hologram-unchanged", same(snap(res.guess_hologram), before_g))
    o2 = c.outcome(res._serialize_as_dataset)
    c.ensures("can-be-prepared-for-saving-again", o2.ok, detail=repr(o2.exc))
    c.ensures("hologram-still-the-forward-model", bool(np.allclose(res.hologram.values, _toy_forward(det, Sphere(n=truth['n'], r=truth['r'],
                                                                                                center=(truth['x'], 0.0, truth['z']))).values)))
