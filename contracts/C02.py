"""C02  Independent solvers agree on the field scattered by a single sphere - the layered-sphere clauses.

Within reach of function contracts (claimed): the scattering coefficients of a layered sphere computed by the real
`scatcoeffs_multi` (Yang's recursion, Python) equal those of the corresponding simpler sphere when
  * all layers share one index                      (-> the homogeneous sphere of the outer radius, also through `scatcoeffs`),
  * two adjacent layers have equal indices          (-> the particle with the two layers merged),
  * the outer layer has the medium's index (m = 1)  (-> the particle without that layer),
for every index, radius and special-function value, as identities of the real code's rational expressions, with the special
functions as opaque functions constrained only by their DEFINING identities (assumed, listed below).  Specifying layers by
thickness or by outer radius is C20's `layered_by_thickness` contract.

Out of reach: agreement of the Fortran Lorenz-Mie / SCSMFO solvers, scipy's Bessel functions and a textbook series to
solver accuracy (values of special functions in floating point).
"""
import contextlib

import numpy as np
import z3

from pyvc.contract import contract
from pyvc import sym
from pyvc.sym import SNum, SCplx, SBool
import holopy.scattering.theory.mie_f.multilayer_sphere_lib as msl
import holopy.scattering.theory.mie_f.miescatlib as mlib
import holopy.scattering.theory.mie_f.mie_specfuncs as msf
from contracts.kernels import opaque_real, opaque_complex, _native

MF = "holopy.scattering.theory.mie_f."

META = {
    'out_of_reach': ["agreement of the Lorenz-Mie solver, the multi-sphere solver on a one-sphere cluster, the pure-Python series of the lens theories and "
                     "a textbook series 'to solver accuracy' at every detector point: values of Fortran kernels and special functions in floating point",
                     "the truncation order nstop depends on the outer radius: a layered sphere and its simpler counterpart may sum a different number of "
                     "terms; the contracts compare the orders both compute"],
    'assumptions': ["S0  lentz_dn1 + dn_1_down (Fortran) and log_der_13 compute the same logarithmic derivative D1_n(z) = psi_n'(z)/psi_n(z); "
                    "log_der_13 also D3_n(z) = xi_n'(z)/xi_n(z): opaque deterministic functions of (n, z)",
                    "S1  the logarithmic derivatives are D1_n(z) = psi_n'(z)/psi_n(z) = psi_{n-1}(z)/psi_n(z) - n/z and D3_n(z) = xi_{n-1}(z)/xi_n(z) - n/z "
                    "(Riccati-Bessel recurrence f_n' = f_{n-1} - n f_n/z): the stand-in for log_der_13 returns these expressions over opaque psi_n(z), xi_n(z)",
                    "S2  Qratio(z1, z2) is Yang's Q_n = [psi_n(z1)/xi_n(z1)] / [psi_n(z2)/xi_n(z2)] (its documented definition); "
                    "`C02/qratio_multiplicative` proves the consequence Q(a,c) = Q(a,b) Q(b,c) for the REAL Qratio code separately",
                    "no division by zero occurs in the evaluation (every divisor of the code's own expressions is assumed non-zero)",
                    "indices and special-function values range over the reals in the proof; the identities are identities of rational functions, the code "
                    "does not branch on values, so they extend to complex values (identity theorem for polynomials); complex values are exercised "
                    "natively by the cross-check on every run",
                    "orders n = 1..2 (nstop stand-in returns 2): the code is elementwise in n"],
}

NSTOP = 2


def _args(z):
    c = SCplx.of(z) if sym.active() else None
    if c is not None:
        return [SNum(z3.simplify(c.re)), SNum(z3.simplify(c.im))]
    z = complex(z)
    return [z.real, z.imag]


def _val(name, n, z):
    """opaque special-function value  name_n(z) (symbolic runs only; real-valued in the proof, see META)"""
    return opaque_real("%s_%d" % (name, n), _args(z))


def _py_lentz_dn1(z, n, eps1=1e-3, eps2=1e-16):
    return None


def _py_dn_1_down(z, nmx, nstop, start):
    """native stand-in for the Fortran downward recurrence: the library's own pure-Python `log_der_1` started well above nstop"""
    big = int(max(nstop, abs(z))) + 40
    return msf.log_der_1(z, big, nstop)


@contextlib.contextmanager
def specfunc_kernels():
    """symbolic runs: log_der_13 / Qratio / riccati_psi_xi / the Fortran D1 helpers are opaque functions (S0-S2), nstop = NSTOP.
    native runs: the library's REAL special-function code (scipy Riccati-Bessel, Python recurrences) with a pure-Python downward
    recurrence in place of the two Fortran helpers, nstop = NSTOP - so the cross-check also tests S0-S2 on real values."""
    names = [(mlib, 'nstop'), (msl, 'log_der_13'), (msl, 'Qratio'), (msl, 'riccati_psi_xi'), (mlib, 'dn_1_down'), (mlib, 'lentz_dn1'),
             (msf, 'dn_1_down'), (msf, 'lentz_dn1'), (msf, 'riccati_psi_xi'), (msf, 'log_der_13')]
    missing = object()
    saved = [(mod, n, getattr(mod, n, missing)) for mod, n in names]

    def log_der_13(z, nstop, eps1=1e-3, eps2=1e-16):
        # S1: the logarithmic derivatives ARE psi'/psi and xi'/xi, with the Riccati-Bessel recurrence f_n' = f_{n-1} - n f_n / z
        # (order 0 is computed and thrown away by the code under proof: opaque)
        zz = SCplx.of(z)
        zr = SNum(z3.simplify(zz.re)) if z3.eq(z3.simplify(zz.im), z3.RealVal(0)) else z
        d1 = [_val("D1", 0, z)] + [_val("psi", n - 1, z) / _val("psi", n, z) - n / zr for n in range(1, nstop + 1)]
        d3 = [_val("D3", 0, z)] + [_val("xi", n - 1, z) / _val("xi", n, z) - n / zr for n in range(1, nstop + 1)]
        return np.array(d1, dtype=object), np.array(d3, dtype=object)

    def qratio(z1, z2, nstop, dns1=None, dns2=None, eps1=1e-3, eps2=1e-16):
        return np.array([_val("psi", n, z1) * _val("xi", n, z2) / (_val("xi", n, z1) * _val("psi", n, z2)) for n in range(nstop + 1)], dtype=object)

    def riccati(x, nstop):
        return np.array([[_val("psi", n, x) for n in range(nstop + 1)], [_val("xi", n, x) for n in range(nstop + 1)]], dtype=object)

    mlib.nstop = lambda x: NSTOP
    if sym.active():
        msl.log_der_13 = msf.log_der_13 = log_der_13
        msl.Qratio = qratio
        msl.riccati_psi_xi = msf.riccati_psi_xi = riccati
        mlib.lentz_dn1 = _py_lentz_dn1
        mlib.dn_1_down = lambda z, nmx, nstop, start: log_der_13(z, nstop)[0]
    else:
        mlib.lentz_dn1 = msf.lentz_dn1 = _py_lentz_dn1
        mlib.dn_1_down = msf.dn_1_down = _py_dn_1_down
    try:
        yield
    finally:
        for mod, n, v in saved:
            if v is missing:
                if hasattr(mod, n):
                    delattr(mod, n)
            else:
                setattr(mod, n, v)


def _index(c, name):
    return c.real(name, pos=True, sample=(1.05, 2.0)) if c.symbolic else complex(c.real(name, pos=True, sample=(1.05, 2.0)), c.real(name + "_im", sample=(0, 0.3)))


def _radii(c, k):
    xs = [c.real("x%d" % i, pos=True, sample=(0.5 + 2 * i, 2.0 + 2 * i)) for i in range(k)]
    for a, b in zip(xs, xs[1:]):
        c.requires(a < b)
    return xs


def _no_division_by_zero(c, *results):
    """precondition: every divisor in the code's own expressions is non-zero"""
    if not c.symbolic:
        c.requires(all(np.all(np.isfinite(np.asarray(r, dtype=complex))) for r in results))
        return
    seen = set()
    for r in results:
        for v in np.asarray(r, dtype=object).reshape(-1):
            cz = SCplx.of(v)
            for part in (cz.re, cz.im):
                for d in sym._denominators(part):
                    if d.get_id() not in seen:
                        seen.add(d.get_id())
                        c.requires(SBool(d != 0))


def _same_coefficients(c, got, want):
    g, w = np.asarray(got, dtype=object if c.symbolic else complex), np.asarray(want, dtype=object if c.symbolic else complex)
    return c.and_(g.shape == w.shape == (2, NSTOP), *[c.eq(a, b) for a, b in zip(g.reshape(-1), w.reshape(-1))])


@contract("C02", "layers_share_one_index", [MF + "multilayer_sphere_lib:scatcoeffs_multi", MF + "miescatlib:scatcoeffs"],
          bounded="2 or 3 layers; orders n = 1..2", timeout_ms=60000)
def layers_share_one_index(c):
    """a layered sphere whose layers all have the same index has exactly the scattering coefficients of the homogeneous sphere with the
    outer radius - computed by the layered code on one layer and by the homogeneous-sphere code `scatcoeffs`"""
    k = c.choice("layers", [2, 3])
    m = _index(c, "m")
    xs = _radii(c, k)
    A = (lambda v: np.array(v, dtype=object if c.symbolic else complex))
    with specfunc_kernels():
        layered = c.call(msl.scatcoeffs_multi, A([m] * k), A(xs))
        single = c.call(msl.scatcoeffs_multi, A([m]), A([xs[-1]]))
        homogeneous = c.call(mlib.scatcoeffs, m, xs[-1], NSTOP)
    _no_division_by_zero(c, layered, single, homogeneous)
    with sym.frac_budget(150):
        c.ensures("layered-with-one-index-equals-single-layer", _same_coefficients(c, layered, single))
        c.ensures("single-layer-equals-homogeneous-sphere-code", _same_coefficients(c, single, homogeneous))
    c.canary("inner-radius-irrelevant-for-different-indices", c.eq(np.asarray(layered, dtype=object).reshape(-1)[0] if c.symbolic else 0, 0))


@contract("C02", "adjacent_equal_layers_merge", [MF + "multilayer_sphere_lib:scatcoeffs_multi"],
          bounded="3 layers with the equal pair outside (core + 2) or at the core (2 + shell); 4 layers with the pair in the middle natively only; "
                  "orders n = 1..2", timeout_ms=60000)
def adjacent_equal_layers_merge(c):
    """merging two adjacent layers of equal index leaves every scattering coefficient unchanged, wherever the pair sits"""
    # the pair in the middle of four layers is exercised natively only (real special functions); symbolically the polynomial is out of
    # the normaliser's budget, and it adds nothing: in "outer two of three" the state entering the pair (H^a, H^b, previous index) is
    # already arbitrary, and what follows the pair sees only the state leaving it
    where = c.choice("equal_pair", ["outer two of three", "inner two of three"] + ([] if c.symbolic else ["middle two of four"]))
    A = (lambda v: np.array(v, dtype=object if c.symbolic else complex))
    m, m_other, m_third = _index(c, "m"), _index(c, "m_other"), _index(c, "m_third")
    if where == "outer two of three":
        xs = _radii(c, 3)
        full, merged = ([m_other, m, m], xs), ([m_other, m], [xs[0], xs[2]])
    elif where == "inner two of three":
        xs = _radii(c, 3)
        full, merged = ([m, m, m_other], xs), ([m, m_other], [xs[1], xs[2]])
    else:
        xs = _radii(c, 4)
        full, merged = ([m_other, m, m, m_third], xs), ([m_other, m, m_third], [xs[0], xs[2], xs[3]])
    with specfunc_kernels():
        a = c.call(msl.scatcoeffs_multi, A(full[0]), A(full[1]))
        b = c.call(msl.scatcoeffs_multi, A(merged[0]), A(merged[1]))
    _no_division_by_zero(c, a, b)
    with sym.frac_budget(150):
        c.ensures("merged-layers-same-coefficients", _same_coefficients(c, a, b))
    if c.symbolic and where == "outer two of three":
        with specfunc_kernels():
            wrong = c.call(msl.scatcoeffs_multi, A([m_other, m]), A([xs[0], xs[1]]))      # the outer layer dropped instead of merged
        c.canary("outer-layer-irrelevant", c.eq(np.asarray(a, dtype=object).reshape(-1)[1], np.asarray(wrong, dtype=object).reshape(-1)[1]))


@contract("C02", "outer_layer_of_medium_index", [MF + "multilayer_sphere_lib:scatcoeffs_multi", MF + "miescatlib:scatcoeffs"],
          bounded="1 or 2 layers under the outer layer; orders n = 1..2", timeout_ms=120000)
def outer_layer_of_medium_index(c):
    """an outer layer with the medium's index (relative index 1) does not scatter: the coefficients are those of the particle without it"""
    k = c.choice("layers_under_the_shell", [1, 2])
    A = (lambda v: np.array(v, dtype=object if c.symbolic else complex))
    ms = [_index(c, "m%d" % i) for i in range(k)]
    xs = _radii(c, k + 1)
    one = 1.0 if c.symbolic else complex(1.0)
    with specfunc_kernels():
        shelled = c.call(msl.scatcoeffs_multi, A(ms + [one]), A(xs))
        bare = c.call(msl.scatcoeffs_multi, A(ms), A(xs[:-1]))
    _no_division_by_zero(c, shelled, bare)
    with sym.frac_budget(150):
        c.ensures("shell-of-medium-index-is-invisible", _same_coefficients(c, shelled, bare))
    c.canary("coefficients-vanish", c.eq(np.asarray(shelled, dtype=object).reshape(-1)[0] if c.symbolic else 0, 0))


@contract("C02", "single_layer_handoff", ["holopy.scattering.theory.mie:Mie._scat_coeffs", "holopy.scattering.scatterer.sphere:LayeredSphere.r"])
def single_layer_handoff(c):
    """a homogeneous sphere, the same sphere written as a one-layer LayeredSphere (by thickness), and as index / radius given as
    one-element lists reach the scattering-coefficient kernel with identical arguments: the same kernel (the homogeneous-sphere
    code), relative index n/n_medium, size parameter k r, series length from that size parameter, the theory's tolerances"""
    from contracts.kernels import mie_kernels, Recorder
    from holopy.scattering.scatterer import Sphere, LayeredSphere
    from holopy.scattering.theory import Mie
    n, r = c.real("n", pos=True, sample=(1.2, 2)), c.real("r", pos=True, sample=(0.1, 3))
    k, nmed = c.real("k", pos=True, sample=(5, 15)), c.real("n_medium", pos=True, sample=(1, 1.5))
    c.requires(k * r <= 1000)
    calls = []
    for make in (lambda: Sphere(n=n, r=r, center=(0, 0, 0)), lambda: LayeredSphere(n=[n], t=[r], center=(0, 0, 0)),
                 lambda: Sphere(n=[n], r=[r], center=(0, 0, 0))):
        rec = Recorder()
        with mie_kernels(rec):
            c.call(Mie()._scat_coeffs, make(), k, nmed)
        calls.append([(name, kw) for name, kw in rec.calls if name in ('scatcoeffs', 'scatcoeffs_multi', 'nstop')])
    ref = calls[0]
    c.ensures("homogeneous-sphere-kernel", [name for name, _ in ref] == ['nstop', 'scatcoeffs'])
    kw = dict(ref)['scatcoeffs']
    c.ensures("relative-index-and-size-parameter", c.and_(c.eq(kw['m'], n / nmed), c.eq(kw['x'], k * r), c.eq(dict(ref)['nstop']['x'], k * r)))
    for other in calls[1:]:
        c.ensures("same-kernel-same-arguments", c.and_([name for name, _ in other] == [name for name, _ in ref],
                                                      *[c.eq(a[key], b[key]) for (_, a), (_, b) in zip(other, ref) for key in ('m', 'x') if key in a]))


@contract("C02", "thickness_or_radius_handoff", ["holopy.scattering.theory.mie:Mie._scat_coeffs", "holopy.scattering.scatterer.sphere:LayeredSphere.r"],
          bounded="2-4 layers")
def thickness_or_radius_handoff(c):
    """a layered sphere specified by layer thicknesses and the same sphere specified by outer radii reach the layered kernel with
    identical arguments (relative indices n_i/n_medium, size parameters k r_i with r_i the cumulative thickness)"""
    from contracts.kernels import mie_kernels, Recorder
    from holopy.scattering.scatterer import Sphere, LayeredSphere
    from holopy.scattering.theory import Mie
    L = c.choice("layers", [2, 3, 4])
    ns = [c.real("n%d" % i, pos=True, sample=(1.2, 2)) for i in range(L)]
    ts = [c.real("t%d" % i, pos=True, sample=(0.1, 0.6)) for i in range(L)]
    k, nmed = c.real("k", pos=True, sample=(5, 15)), c.real("n_medium", pos=True, sample=(1, 1.5))
    radii = [sum(ts[:i + 1]) for i in range(L)]
    c.requires(k * radii[-1] <= 1000)
    got = []
    for make in (lambda: LayeredSphere(n=list(ns), t=list(ts), center=(0, 0, 0)), lambda: Sphere(n=list(ns), r=list(radii), center=(0, 0, 0))):
        rec = Recorder()
        with mie_kernels(rec):
            c.call(Mie()._scat_coeffs, make(), k, nmed)
        got.append([(name, kw) for name, kw in rec.calls if name in ('scatcoeffs', 'scatcoeffs_multi')])
    c.ensures("layered-kernel", [name for name, _ in got[0]] == ['scatcoeffs_multi'] and [name for name, _ in got[1]] == ['scatcoeffs_multi'])
    a, b = got[0][0][1], got[1][0][1]
    c.ensures("relative-indices", c.and_(*[c.eq(u, v / nmed) for u, v in zip(a['m'], ns)], len(a['m']) == L))
    c.ensures("size-parameters-from-cumulative-thickness", c.and_(*[c.eq(u, k * v) for u, v in zip(a['x'], radii)], len(a['x']) == L))
    c.ensures("thickness-and-radius-forms-agree", c.and_(*[c.eq(u, v) for u, v in zip(list(a['m']) + list(a['x']), list(b['m']) + list(b['x']))]))
