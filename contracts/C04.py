"""C04  Results depend only on dimensionless ratios (unit-agnostic)."""
import numpy as np
import xarray as xr

from pyvc.contract import contract
from pyvc import sym
from holopy.scattering.interface import calc_holo, calc_field, calc_intensity, calc_cross_sections
from holopy.scattering.imageformation import ImageFormation, get_wavevec_from
from holopy.scattering.scatterer import Sphere
from holopy.scattering.theory import MieLens
from holopy.scattering.theory.mielens import AberratedMieLens
from holopy.core.metadata import detector_grid, detector_points, update_metadata, to_vector
from contracts.common import AbstractPointTheory
from contracts.kernels import mie_kernels, mielens_kernels, Recorder

SI = "holopy.scattering.interface:"
IF = "holopy.scattering.imageformation:"
TH = "holopy.scattering.theory."

META = {
    'out_of_reach': ["homogeneity of Mishchenko's ampld in (axi, lam) for the T-matrix theory, and everything inside the compiled kernels: "
                     "the kernels are opaque deterministic functions of their arguments; what is proved is that under a rescaling of all "
                     "lengths (and under index normalisation) the real Python hand-off gives every kernel EQUAL arguments",
                     "Multisphere._scsmfo_setup and Tmatrix._parse_args / Lens hand-offs are not under contract yet (listed as unverified)"],
    'assumptions': ["kernels (mie_fields, asm_mie_far, scatcoeffs, scatcoeffs_multi, nstop, the MieLens pupil integrals) are deterministic "
                    "functions of their arguments (contracts/kernels.py); Mie is verified as deployed (extension present)",
                    "detectors are small and concrete in shape (two points / 2x2 grid): bounded; all lengths, indices and the scale factor symbolic"],
}


def _scale(c):
    """the change of length unit: any positive factor; natively sampled over twelve orders of magnitude (nm ... km per micron)"""
    if c.symbolic or "scale" in c.values:
        return c.real("scale", pos=True, sample=(0.2, 5))
    return c.real("scale_mantissa", pos=True, sample=(1, 9.999)) * 10.0 ** c.int("scale_exponent", -9, 3)


def _setup(c):
    s = _scale(c)
    lam = c.real("wavelen", pos=True, sample=(0.4, 0.8))
    n_med = c.real("medium_index", pos=True, sample=(1.0, 1.6))
    n = c.real("n", pos=True, sample=(1.2, 2.0))
    r = c.real("r", pos=True, sample=(0.2, 1.0))
    cen = [c.real("cx", sample=(-1, 1)), c.real("cy", sample=(-1, 1)), c.real("cz", sample=(3, 9))]
    px, py = c.real("pol_x", sample=(-1, 1)), c.real("pol_y", sample=(-1, 1))
    c.requires(c.not_(c.and_(c.eq(px, 0), c.eq(py, 0))) if c.symbolic else abs(px) + abs(py) > 1e-2)
    return s, lam, n_med, n, r, cen, px, py


def _points(c, k=1):
    xs, ys = [c.real("x0", sample=(-2, 2)), c.real("x1", sample=(-2, 2))], [c.real("y0", sample=(-2, 2)), c.real("y1", sample=(-2, 2))]
    zs = [c.real("z0", sample=(-1, 1)), c.real("z1", sample=(-1, 1))]          # detectors need not lie in the z = 0 plane
    A = (lambda v: np.array(v, dtype=object if c.symbolic else float))
    return xs, ys, (lambda f: detector_points(x=A([f * v for v in xs]), y=A([f * v for v in ys]), z=A([f * v for v in zs])))


def _scale_contract(coords):
    def body(c):
        s, lam, n_med, n, r, cen, px, py = _setup(c)
        xs, ys, mk = _points(c)
        th = AbstractPointTheory(coordinates=coords)
        kw = dict(illum_polarization=(px, py), theory=th)
        base = c.call(calc_holo, mk(1), Sphere(n=n, r=r, center=cen), medium_index=n_med, illum_wavelen=lam, **kw)
        n_calls = len(th.calls)
        scaled = c.call(calc_holo, mk(s), Sphere(n=n, r=r * s, center=[v * s for v in cen]), medium_index=n_med,
                        illum_wavelen=lam * s, **kw)
        # the kernel sees the same dimensionless numbers in both runs
        a, b = th.calls[0], th.calls[n_calls]
        c.ensures("positions-are-dimensionless", c.eq(a['pos'], b['pos']))
        c.ensures("size-parameter", c.eq(a['k'] * a['scatterer'].r, b['k'] * b['scatterer'].r))
        c.ensures("phase-argument", c.eq(a['k'] * a['scatterer'].center[2], b['k'] * b['scatterer'].center[2]))
        c.ensures("hologram-unchanged-by-unit-change", c.eq(scaled.values, base.values))
        # index normalisation: (n, n_m, lambda) -> (n/n_m, 1, lambda/n_m)
        normed = c.call(calc_holo, mk(1), Sphere(n=n / n_med, r=r, center=cen), medium_index=1, illum_wavelen=lam / n_med, **kw)
        d = th.calls[2 * n_calls]
        c.ensures("normalised-positions", c.eq(a['pos'], d['pos']))
        c.ensures("normalised-relative-index", c.eq(a['scatterer'].n / a['n'], d['scatterer'].n / d['n']))
        c.ensures("normalised-size-and-phase", c.and_(c.eq(a['k'] * a['scatterer'].r, d['k'] * d['scatterer'].r),
                                                       c.eq(a['k'] * a['scatterer'].center[2], d['k'] * d['scatterer'].center[2])))
        c.ensures("hologram-unchanged-by-index-normalisation", c.eq(normed.values, base.values))
        c.canary("positions-not-scaled-by-k", c.eq(a['pos'][0], np.array([v - cen[0] for v in xs], dtype=object) if c.symbolic else a['pos'][0] + 1))
    body.__doc__ = ("multiplying every length by one factor, or replacing (n, n_m, lambda) by (n/n_m, 1, lambda/n_m), hands the kernel "
                    "the same dimensionless arguments and leaves the hologram unchanged (theory asking for %s coordinates)" % coords)
    return body


for _cs in ("spherical", "cylindrical"):
    contract("C04", "handoff_" + _cs, [SI + "calc_holo", IF + "ImageFormation._get_field_from",
                                      IF + "ImageFormation._transform_to_desired_coordinates", IF + "get_wavevec_from"],
             bounded="two detector points", timeout_ms=90000)(_scale_contract(_cs))


@contract("C04", "field_and_intensity", [SI + "calc_field", SI + "calc_intensity"], bounded="two detector points", timeout_ms=90000)
def field_and_intensity(c):
    """fields and intensities are unchanged by a change of length unit"""
    s, lam, n_med, n, r, cen, px, py = _setup(c)
    xs, ys, mk = _points(c)
    th = AbstractPointTheory()
    kw = dict(illum_polarization=(px, py), theory=th)
    sph, sph_s = Sphere(n=n, r=r, center=cen), Sphere(n=n, r=r * s, center=[v * s for v in cen])
    f0 = c.call(calc_field, mk(1), sph, medium_index=n_med, illum_wavelen=lam, **kw)
    f1 = c.call(calc_field, mk(s), sph_s, medium_index=n_med, illum_wavelen=lam * s, **kw)
    a, b = th.calls[0], th.calls[1]
    c.ensures("kernel-arguments-equal", c.and_(c.eq(a['pos'], b['pos']), c.eq(a['k'] * a['scatterer'].r, b['k'] * b['scatterer'].r),
                                               c.eq(a['k'] * a['scatterer'].center[2], b['k'] * b['scatterer'].center[2])))
    c.ensures("field-unchanged", c.eq(f1.values, f0.values))
    i0 = c.call(calc_intensity, mk(1), sph, medium_index=n_med, illum_wavelen=lam, **kw)
    i1 = c.call(calc_intensity, mk(s), sph_s, medium_index=n_med, illum_wavelen=lam * s, **kw)
    c.ensures("intensity-unchanged", c.eq(i1.values, i0.values))


@contract("C04", "wavevector", [IF + "get_wavevec_from", SI + "calc_cross_sections"])
def wavevector(c):
    """k = 2 pi n_medium / lambda, in the hologram path and in the cross-section path"""
    lam = c.real("wavelen", pos=True, sample=(0.4, 0.8))
    n_med = c.real("medium_index", pos=True, sample=(1.0, 1.6))
    schema = update_metadata(detector_grid(2, 0.1), medium_index=n_med, illum_wavelen=lam)
    c.ensures("hologram-path", c.eq(c.call(get_wavevec_from, schema), 2 * c.pi * n_med / lam))

    class Th(AbstractPointTheory):
        def raw_cross_sections(self, scatterer, medium_wavevec, medium_index, illum_polarization):
            self.seen = (medium_wavevec, medium_index, illum_polarization)
            return np.array([1., 2., 3., 4.])
    th = Th()
    out = c.call(calc_cross_sections, Sphere(n=1.5, r=0.5, center=(0, 0, 1)), medium_index=n_med, illum_wavelen=lam,
                 illum_polarization=(0, 2), theory=th)
    c.ensures("cross-section-path", c.and_(c.eq(th.seen[0], 2 * c.pi * n_med / lam), c.eq(th.seen[1], n_med),
                                           c.eq(th.seen[2].values, np.array([0., 1., 0.]))))
    c.ensures("labels", list(out.cross_section.values) == ['scattering', 'absorbtion', 'extinction', 'assymetry'])
    c.canary("k-uses-product", c.eq(th.seen[0], 2 * c.pi / (lam * n_med)))


@contract("C04", "mie_kernel_arguments", [TH + "mie:Mie._scat_coeffs", TH + "mie:Mie.raw_fields", TH + "mie:Mie.raw_scat_matrs",
                                           TH + "mie:Mie.raw_cross_sections"],
          bounded="single-layer and two-layer spheres; two detector points; series truncated to 3 opaque terms")
def mie_kernel_arguments(c):
    """Lorenz-Mie hand-off: the coefficient kernels receive x = k r and m = n / n_medium (per layer), unchanged by a change of
    length unit and by index normalisation; the field kernel receives those coefficients and the dimensionless positions;
    cross sections scale with the square of the length unit"""
    from holopy.scattering.theory import mie as miemod
    s, lam, n_med, n, r, cen, px, py = _setup(c)
    layered = c.choice("layers", [1, 2])
    n2, r2 = c.real("n_outer", pos=True, sample=(1.2, 2.0)), c.real("r_outer", pos=True, sample=(1.0, 1.5))
    if not c.symbolic:
        c.requires(r * max(s, 1) * 2 * np.pi * n_med / lam < 900 and r2 * max(s, 1) * 2 * np.pi * n_med / lam < 900)
    else:
        k_ = 2 * c.pi * n_med / lam
        c.requires(c.and_(k_ * r <= 1000, k_ * r2 <= 1000))
    with mie_kernels() as rec:
        th = miemod.Mie()

        def sphere(f, nn=None):
            nv = [n, n2] if layered == 2 else n
            rv = [r * f, r2 * f] if layered == 2 else r * f
            return Sphere(n=nv, r=rv, center=[v * f for v in cen])
        k = 2 * c.pi * n_med / lam
        co0 = c.call(th._scat_coeffs, sphere(1), k, n_med)
        co1 = c.call(th._scat_coeffs, sphere(s), k / s, n_med)
        if layered == 1:
            c.ensures("single-layer-kernel", rec.calls[1][0] == 'scatcoeffs' and rec.calls[0][0] == 'nstop')
            c.ensures("size-parameter", c.and_(c.eq(rec.calls[1][1]['x'], k * r), c.eq(rec.calls[0][1]['x'], k * r)))
            c.ensures("relative-index", c.eq(rec.calls[1][1]['m'], n / n_med))
        else:
            c.ensures("multilayer-kernel", rec.calls[0][0] == 'scatcoeffs_multi')
            c.ensures("size-parameter", c.and_(c.eq(rec.calls[0][1]['x'][0], k * r), c.eq(rec.calls[0][1]['x'][1], k * r2)))
            c.ensures("relative-index", c.and_(c.eq(rec.calls[0][1]['m'][0], n / n_med), c.eq(rec.calls[0][1]['m'][1], n2 / n_med)))
        c.ensures("coefficients-unit-independent", c.and_(*[c.eq(u, v) for u, v in zip(co0.args, co1.args)]))
        # cross sections: s^2
        if layered == 1:
            pol = to_vector((px, py))
            cs0 = c.call(th.raw_cross_sections, sphere(1), k, n_med, pol)
            c.requires(c.not_(c.eq(cs0[0], 0)) if c.symbolic else abs(cs0[0]) > 1e-9)   # the asymmetry divides by C_sca
            cs1 = c.call(th.raw_cross_sections, sphere(s), k / s, n_med, pol)
            c.ensures("cross-sections-scale-with-area", c.and_(*[c.eq(cs1[i], cs0[i] * s * s) for i in range(3)]))
            c.ensures("asymmetry-unit-independent", c.eq(cs1[3], cs0[3]))


@contract("C04", "mielens_kernel_arguments", [TH + "mielens:MieLens.raw_fields", TH + "mielens:MieLens._create_calculator",
                                               TH + "mielens:AberratedMieLens._create_calculator"],
          bounded="one detector point (the theory is pointwise at fixed height)", max_paths=60, timeout_ms=60000)
def mielens_kernel_arguments(c):
    """Mie-plus-lens hand-off: the calculator receives k*z_particle, n/n_medium and k*r, unchanged by a change of length unit
    and by index normalisation, so the fields are unchanged (both in the region where the pupil integrals are evaluated and
    beyond the cut-off radius)"""
    s, lam, n_med, n, r, cen, px, py = _setup(c)
    x0, y0 = c.real("x0", sample=(-2, 2)), c.real("y0", sample=(-2, 2))
    A = (lambda v: np.array(v, dtype=object if c.symbolic else float))
    mk = (lambda f: detector_points(x=A([f * x0]), y=A([f * y0]), z=A([0 * f])))
    which = c.choice("theory", ["MieLens", "AberratedMieLens"])
    region = c.choice("region", ["inside-cutoff", "beyond-cutoff"])
    k = 2 * c.pi * n_med / lam
    krho2 = k * k * ((x0 - cen[0]) ** 2 + (y0 - cen[1]) ** 2)
    if region == "inside-cutoff":
        c.requires(krho2 < 390.0 ** 2)
    else:
        c.requires(krho2 >= 390.0 ** 2)
    with mielens_kernels() as rec:
        th = MieLens(lens_angle=0.9) if which == "MieLens" else AberratedMieLens(spherical_aberration=0.3, lens_angle=0.9)
        kw = dict(illum_polarization=(px, py), theory=th)
        seen = []
        orig = th.raw_fields

        def raw_fields(positions, *a, **k_):
            seen.append(np.array(positions, dtype=object if c.symbolic else float).copy())
            return orig(positions, *a, **k_)
        th.raw_fields = raw_fields
        f0 = c.call(calc_field, mk(1), Sphere(n=n, r=r, center=cen), medium_index=n_med, illum_wavelen=lam, **kw)
        f1 = c.call(calc_field, mk(s), Sphere(n=n, r=r * s, center=[v * s for v in cen]), medium_index=n_med, illum_wavelen=lam * s, **kw)
        f2 = c.call(calc_field, mk(1), Sphere(n=n / n_med, r=r, center=cen), medium_index=1, illum_wavelen=lam / n_med, **kw)
    calls = [kw_ for nm, kw_ in rec.calls if nm == 'calculator']
    c.ensures("positions-are-dimensionless", c.and_(c.eq(seen[1], seen[0]), c.eq(seen[2], seen[0])))
    c.ensures("calculator-arguments", c.and_(c.eq(calls[0]['particle_kz'], k * cen[2]), c.eq(calls[0]['index_ratio'], n / n_med),
                                             c.eq(calls[0]['size_parameter'], k * r), c.eq(calls[0]['lens_angle'], 0.9)))
    for other in calls[1:]:
        c.ensures("calculator-arguments-invariant", c.and_(*[c.eq(other[key], calls[0][key]) for key in
                                                             ('particle_kz', 'index_ratio', 'size_parameter', 'lens_angle')]))
    c.ensures("field-unchanged-by-unit-change", c.eq(f1.values, f0.values))
    c.ensures("field-unchanged-by-index-normalisation", c.eq(f2.values, f0.values))
    if region == "beyond-cutoff":
        c.ensures("zero-beyond-cutoff", c.and_(*[c.eq(v, 0) for v in f0.values.flat]))


@contract("C04", "detector_grid_scales", ["holopy.core.metadata:detector_grid", "holopy.core.metadata:make_coords"],
          bounded="grid shapes (2,3) and 3")
def detector_grid_scales(c):
    """detector_grid(shape, s*spacing) has exactly s times the coordinates of detector_grid(shape, spacing)"""
    s = _scale(c)
    sx, sy = c.real("sx", pos=True, sample=(0.05, 1)), c.real("sy", pos=True, sample=(0.05, 1))
    shape = c.choice("shape", [(2, 3), 3])
    a = c.call(detector_grid, shape, (sx, sy))
    b = c.call(detector_grid, shape, (sx * s, sy * s))
    # compared in the unscaled unit, so that the native tolerance is relative to the coordinates' own size
    c.ensures("x", c.eq(b.x.values / s, a.x.values))
    c.ensures("y", c.eq(b.y.values / s, a.y.values))


@contract("C04", "integer_pixel_grid", [IF + "ImageFormation._transform_to_desired_coordinates", SI + "calc_holo"],
          bounded="2x2 grid with integer spacing 1 (integer-typed coordinates) against the same grid in other units", timeout_ms=60000)
def integer_pixel_grid(c):
    """a detector given in whole pixels (integer spacing, integer-typed coordinate arrays) and a non-integer particle position
    gives the same hologram as the same scene expressed in another length unit"""
    s = c.real("scale", pos=True, sample=(0.05, 0.5))
    lam = c.real("wavelen", pos=True, sample=(3, 8))
    n_med = c.real("medium_index", pos=True, sample=(1.0, 1.6))
    n, r = c.real("n", pos=True, sample=(1.2, 2.0)), c.real("r", pos=True, sample=(2, 6))
    cen = [c.real("cx", sample=(-1.9, 1.9)), c.real("cy", sample=(-1.9, 1.9)), c.real("cz", sample=(30, 90))]
    th = AbstractPointTheory(coordinates='cartesian')
    kw = dict(illum_polarization=(1, 0), theory=th)
    in_pixels = c.call(calc_holo, detector_grid(2, 1), Sphere(n=n, r=r, center=cen), medium_index=n_med, illum_wavelen=lam, **kw)
    in_units = c.call(calc_holo, detector_grid(2, s), Sphere(n=n, r=r * s, center=[v * s for v in cen]), medium_index=n_med,
                      illum_wavelen=lam * s, **kw)
    c.ensures("kernel-positions-equal", c.eq(th.calls[1]['pos'], th.calls[0]['pos']))
    c.ensures("hologram-equal", c.eq(in_units.values, in_pixels.values))


@contract("C04", "spherical_detector_points_scale", [IF + "ImageFormation._transform_to_desired_coordinates", SI + "calc_field"],
          bounded="two detector points given in spherical coordinates (r, theta, phi) about the origin")
def spherical_detector_points_scale(c):
    """detector points given by radius and angles: under a change of length unit (radius, sphere and wavelength scaled together) the
    kernel sees the same dimensionless positions, and they are k times the positions relative to the particle"""
    from holopy.scattering.interface import calc_field
    s = _scale(c)
    lam = c.real("wavelen", pos=True, sample=(0.4, 0.8))
    n_med = c.real("medium_index", pos=True, sample=(1.0, 1.6))
    n, r = c.real("n", pos=True, sample=(1.2, 2.0)), c.real("r", pos=True, sample=(0.2, 1.0))
    A = (lambda v: np.array(v, dtype=object if c.symbolic else float))
    rad = [c.real("r0", pos=True, sample=(5, 20)), c.real("r1", pos=True, sample=(5, 20))]
    theta = np.array([0.3, 1.1])
    phi = np.array([0.2, 2.5])
    th = AbstractPointTheory(coordinates='spherical')
    kw = dict(medium_index=n_med, illum_polarization=(1, 0), theory=th)
    c.call(calc_field, detector_points(r=A(rad), theta=theta, phi=phi), Sphere(n=n, r=r, center=[0, 0, 0]), illum_wavelen=lam, **kw)
    c.call(calc_field, detector_points(r=A([v * s for v in rad]), theta=theta, phi=phi), Sphere(n=n, r=r * s, center=[0, 0, 0]),
           illum_wavelen=lam * s, **kw)
    a, b = th.calls[0], th.calls[1]
    c.ensures("positions-are-dimensionless", c.eq(a['pos'], b['pos']))
    c.ensures("radius-in-units-of-one-over-k", c.and_(*[c.eq(a['pos'][0][i], a['k'] * rad[i]) for i in range(2)]))
    c.ensures("size-parameter", c.eq(a['k'] * a['scatterer'].r, b['k'] * b['scatterer'].r))


@contract("C04", "multi_colour_unit_change_native", [SI + "prep_schema", SI + "calc_holo", IF + "ImageFormation._calculate_multiple_color_scattered_field"],
          native_only=True, bounded="native sampling: two unlabelled wavelengths given as a list, 6x6 detector, Mie-plus-lens theory, unit changes over "
                                    "twelve orders of magnitude")
def multi_colour_unit_change_native(c):
    """several illumination wavelengths given as a plain list (the library labels the channels itself): multiplying every length by s
    leaves every channel's hologram unchanged, and each channel equals the single-colour hologram at its wavelength"""
    from holopy.scattering.theory import MieLens
    from holopy.core.metadata import detector_grid
    s = _scale(c)
    n, r = c.real("n", sample=(1.4, 1.7)), c.real("r", sample=(0.3, 0.8))
    lams = [c.real("wavelen_0", sample=(0.6, 0.7)), c.real("wavelen_1", sample=(0.45, 0.55))]
    th = MieLens(lens_angle=0.8)

    def holo(f, wl):
        det = detector_grid(6, 0.1 * f)
        sph = Sphere(n=n, r=r * f, center=(0.3 * f, 0.25 * f, 5 * f))
        return calc_holo(det, sph, medium_index=1.33, illum_wavelen=wl, illum_polarization=(1, 0), theory=th)
    ref = holo(1.0, list(lams))
    o = c.outcome(holo, s, [w * s for w in lams])
    c.ensures("no-unexpected-exception", o.ok, detail="scale %r: %r" % (s, o.exc))
    if o.ok:
        c.ensures("every-channel-unchanged-by-the-unit-change", bool(np.allclose(o.value.values, ref.values, rtol=1e-8, atol=1e-10)))
        for i, w in enumerate(lams):
            one = holo(s, w * s)
            c.ensures("channel-equals-the-single-colour-hologram", bool(np.allclose(np.asarray(o.value.values[i]).squeeze(), one.values.squeeze(),
                                                                                     rtol=1e-8, atol=1e-10)))
