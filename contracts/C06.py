"""C06  Superposition, polarization linearity, multi-channel = stacked single-channel."""
import numpy as np
import xarray as xr

from pyvc.contract import contract
from pyvc import sym
from holopy.scattering.interface import calc_holo, calc_field
from holopy.scattering.imageformation import ImageFormation, select_scatterer_by_illumination
from holopy.scattering.scatterer import Sphere, Spheres, Scatterers
from holopy.scattering.theory import MieLens
from holopy.scattering.theory.mielens import AberratedMieLens
from holopy.core.metadata import detector_points, detector_grid, update_metadata, to_vector
from contracts.common import AbstractPointTheory
from contracts.kernels import mielens_kernels
from contracts.C05 import _mielens_fields

SI = "holopy.scattering.interface:"
IF = "holopy.scattering.imageformation:"
TH = "holopy.scattering.theory."
STUB = [("holopy.scattering.scatterer.spherecluster", "Spheres.overlaps", property(lambda self: []))]

META = {
    'out_of_reach': ["linearity in the polarization of the compiled theories (a property of kernel values); it is proved for MieLens / "
                     "AberratedMieLens, whose recombination code is Python"],
    'assumptions': ["the per-sphere kernel is an opaque pointwise function (contracts/common.py)",
                    "collections of 1-3 spheres, one level of nesting, two detector points, two illumination channels: bounded",
                    "xarray concat / sel / broadcast_like act on object-dtype data as on float data"],
}


def _points(c):
    A = (lambda v: np.array(v, dtype=object if c.symbolic else float))
    return detector_points(x=A([c.real("x0", sample=(-2, 2)), c.real("x1", sample=(-2, 2))]),
                           y=A([c.real("y0", sample=(-2, 2)), c.real("y1", sample=(-2, 2))]), z=A([0.0, 0.0]))


def _sphere(c, i):
    return Sphere(n=c.real("n%d" % i, pos=True, sample=(1.2, 2)), r=c.real("r%d" % i, pos=True, sample=(0.2, 1)),
                  center=[c.real("cx%d" % i, sample=(-2, 2)), c.real("cy%d" % i, sample=(-2, 2)), c.real("cz%d" % i, sample=(3, 9))])


@contract("C06", "superposition", [IF + "ImageFormation._calculate_scattered_field_from_superposition",
                                   IF + "ImageFormation._calculate_single_color_scattered_field",
                                   "holopy.scattering.scatterer.composite:Scatterers.get_component_list"],
          bounded="collections of 1, 2 or 3 spheres; two detector points", patches=STUB, timeout_ms=60000)
def superposition(c):
    """for a theory that treats spheres independently, the field of a collection is the sum of the fields of its members
    computed separately (members listed in order; nested collections flattened)"""
    m = c.choice("members", [1, 2, 3])
    nested = False     # a generic Scatterers has no `center` and is refused by calculate_scattered_field (DESIGN note N10)
    det = _points(c)
    sph = [_sphere(c, i) for i in range(m)]
    th = AbstractPointTheory()
    kw = dict(medium_index=1.33, illum_wavelen=0.66, illum_polarization=(1, 0), theory=th)
    col = Scatterers([sph[0], Scatterers([sph[1], sph[2]])]) if nested else Spheres(sph, warn=False)
    total = c.call(calc_field, det, col, **kw)
    parts = [c.call(calc_field, det, s, **kw) for s in sph]
    acc = parts[0].values
    for p in parts[1:]:
        acc = acc + p.values
    c.ensures("sum-of-member-fields", c.eq(total.values, acc))
    c.ensures("components-flattened-in-order", [s is t for s, t in zip(col.get_component_list(), sph)] == [True] * m)
    if m == 3:
        tree = Scatterers([sph[0], Scatterers([sph[1], Scatterers([sph[2]])])])
        c.ensures("nested-collections-flatten-in-order", [s is t for s, t in zip(tree.get_component_list(), sph)] == [True] * 3
                  and len(tree.get_component_list()) == 3)
    c.ensures("members-untouched", c.and_(*[c.eq(np.array(s.center, dtype=object), np.array(t.center, dtype=object)) for s, t in zip(col.get_component_list(), sph)]))
    if m >= 2:
        c.canary("first-member-only", c.eq(total.values, parts[0].values))
        c.canary("last-member-dropped", c.eq(total.values, acc - parts[-1].values))


def _linearity(which):
    def body(c):
        rho = c.real("krho", nonneg=True, sample=(0, 30))
        phi = c.angle("phi", lo=0, hi=2 * c.pi)
        kz = c.real("kz", sample=(-30, 30))
        gamma = c.angle("gamma")
        m, x = c.real("index_ratio", pos=True, sample=(1.05, 1.6)), c.real("size_parameter", pos=True, sample=(1, 10))
        c.requires(rho < 390)
        with mielens_kernels():
            th = MieLens(lens_angle=0.9) if which == "MieLens" else AberratedMieLens(spherical_aberration=0.4, lens_angle=0.9)
            E = c.call(_mielens_fields, c, th, rho, phi, kz, gamma, m, x)
            Ex = c.call(_mielens_fields, c, th, rho, phi, kz, 0, m, x)
            Ey = c.call(_mielens_fields, c, th, rho, phi, kz, c.pi / 2, m, x)
        a, b = c.cos(gamma), c.sin(gamma)
        for comp in range(3):
            c.ensures("linear-in-polarization", c.eq(E[comp][0], a * Ex[comp][0] + b * Ey[comp][0]))
        # a polarization handed over as a labelled vector that is not of unit length (to_vector passes labelled vectors through
        # unchanged): only its direction may matter
        length = c.real("polarization_length", pos=True, sample=(0.3, 6))
        with mielens_kernels():
            A = (lambda v: np.array(v, dtype=object if c.symbolic else float))
            labelled = xr.DataArray(A([length * a, length * b, 0 * length]), dims=['vector'], coords={'vector': ['x', 'y', 'z']})
            sph = Sphere(n=m, r=x, center=(0, 0, 0))
            El = c.call(th.raw_fields, np.array([A([rho]), A([phi]), A([kz])]), sph, 1, 1, labelled)
        for comp in range(3):
            c.ensures("only-the-direction-of-the-polarization-matters", c.eq(El[comp][0], E[comp][0]))
        c.canary("independent-of-polarization", c.eq(E[0][0], Ex[0][0]))
    body.__doc__ = ("%s: the scattered field for the unit polarization (cos g, sin g) equals cos g * field_x + sin g * field_y, at every "
                    "detector point (hence (a*field_x + b*field_y)/|(a,b)| for polarization (a, b), which the interface normalises)" % which)
    return body


for _w in ("MieLens", "AberratedMieLens"):
    contract("C06", "polarization_linearity_" + _w, [TH + "mielens:MieLens.raw_fields",
                                                     TH + "mielensfunctions:MieLensCalculator.calculate_scattered_field"],
             max_paths=40)(_linearity(_w))


@contract("C06", "polarization_normalised_by_interface", [SI + "calc_field", SI + "prep_schema", "holopy.core.metadata:to_vector"],
          bounded="two detector points")
def polarization_normalised(c):
    """the polarization (a, b) reaches the theory as the unit vector (a, b)/|(a, b)|: a positive multiple of a polarization gives the same field"""
    a, b = c.real("a", sample=(-2, 2)), c.real("b", sample=(-2, 2))
    t = c.real("t", pos=True, sample=(0.2, 4))
    c.requires(c.not_(c.and_(c.eq(a, 0), c.eq(b, 0))) if c.symbolic else abs(a) + abs(b) > 1e-2)
    det = _points(c)
    s = _sphere(c, 0)
    th = AbstractPointTheory()
    kw = dict(medium_index=1.33, illum_wavelen=0.66, theory=th)
    c.call(calc_field, det, s, illum_polarization=(a, b), **kw)
    c.call(calc_field, det, s, illum_polarization=(a * t, b * t), **kw)
    p0, p1 = th.calls[0]['pol'].values, th.calls[1]['pol'].values
    norm = c.sqrt(a * a + b * b)
    c.ensures("unit-vector", c.and_(c.eq(p0[0] * norm, a), c.eq(p0[1] * norm, b), c.eq(p0[2], 0)))
    c.ensures("positive-multiple-irrelevant", c.and_(c.eq(p1[0] * norm, a), c.eq(p1[1] * norm, b)))


@contract("C06", "multi_channel", [IF + "ImageFormation._calculate_multiple_color_scattered_field", IF + "select_scatterer_by_illumination",
                                   SI + "prep_schema", "holopy.core.metadata:clean_concat", "holopy.core.metadata:dict_to_array"],
          bounded="two illumination channels (labels of each per-channel dictionary in either order, independently), 2x1 grid detector with an illumination axis", timeout_ms=60000)
def multi_channel(c):
    """a calculation with two illumination channels (per-channel wavelength, polarization and per-channel scatterer index given as
    dictionaries) returns for each channel exactly the single-channel result for that channel's values - matched by label"""
    order = c.choice("label_order", [("red", "green"), ("green", "red")])
    # the three per-channel dictionaries need not list the channels in the same order: matching is by label, never by position
    pol_order = c.choice("polarization_label_order", [("red", "green"), ("green", "red")])
    n_order = c.choice("index_label_order", [("red", "green"), ("green", "red")])
    # channels may also share their optics (two colour channels of a camera under one laser) and differ only in the scatterer's
    # per-channel index: each channel is still computed with its own values
    same_optics = c.choice("channels_share_wavelength_and_polarization", [False, True])
    lam_r = c.real("lam_red", pos=True, sample=(0.6, 0.7))
    lam = {"red": lam_r, "green": lam_r if same_optics else c.real("lam_green", pos=True, sample=(0.5, 0.56))}
    nidx = {"red": c.real("n_red", pos=True, sample=(1.4, 1.6)), "green": c.real("n_green", pos=True, sample=(1.5, 1.7))}
    pol = {"red": (1, 0), "green": (1, 0) if same_optics else (0, 1)}
    r = c.real("r", pos=True, sample=(0.2, 1))
    cen = [c.real("cx", sample=(-1, 1)), c.real("cy", sample=(-1, 1)), c.real("cz", sample=(3, 9))]
    det = detector_grid((2, 1), 0.1, extra_dims={'illumination': list(order)})
    th = AbstractPointTheory()
    sph = Sphere(n={k: nidx[k] for k in n_order}, r=r, center=cen)
    multi = c.call(calc_field, det, sph, medium_index=1.33, illum_wavelen={k: lam[k] for k in order},
                   illum_polarization={k: pol[k] for k in pol_order}, theory=th)
    c.ensures("channel-labels", sorted(multi.illumination.values) == ["green", "red"])
    single_det = detector_grid((2, 1), 0.1)
    for ch in ("red", "green"):
        one = c.call(calc_field, single_det, Sphere(n=nidx[ch], r=r, center=cen), medium_index=1.33, illum_wavelen=lam[ch],
                     illum_polarization=pol[ch], theory=th)
        got = multi.sel(illumination=ch).transpose('x', 'y', 'z', 'vector').values
        c.ensures("channel-equals-single-channel-result", c.eq(got, one.transpose('x', 'y', 'z', 'vector').values))
    sel = c.call(select_scatterer_by_illumination, sph, "green")
    c.ensures("scatterer-selected-by-label", c.and_(c.eq(sel.n, nidx["green"]), c.eq(sel.r, r)))
    c.canary("channels-identical", c.eq(multi.sel(illumination="red").values, multi.sel(illumination="green").values))


@contract("C06", "multi_channel_hologram", [SI + "calc_holo", SI + "scattered_field_to_hologram"],
          bounded="two illumination channels, 2x1 grid detector", timeout_ms=60000)
def multi_channel_hologram(c):
    """the two-channel hologram equals, channel by channel, the single-channel hologram (wavelength, polarization and scaling per channel)"""
    lam = {"red": c.real("lam_red", pos=True, sample=(0.6, 0.7)), "green": c.real("lam_green", pos=True, sample=(0.5, 0.56))}
    pol = {"red": (1, 0), "green": (0, 1)}
    n, r = c.real("n", pos=True, sample=(1.4, 1.7)), c.real("r", pos=True, sample=(0.2, 1))
    cen = [c.real("cx", sample=(-1, 1)), c.real("cy", sample=(-1, 1)), c.real("cz", sample=(3, 9))]
    alpha = c.real("scaling", sample=(0.3, 1.2))
    det = detector_grid((2, 1), 0.1, extra_dims={'illumination': ["red", "green"]})
    th = AbstractPointTheory()
    sph = Sphere(n=n, r=r, center=cen)
    multi = c.call(calc_holo, det, sph, medium_index=1.33, illum_wavelen=lam, illum_polarization=pol, theory=th, scaling=alpha)
    for ch in ("red", "green"):
        one = c.call(calc_holo, detector_grid((2, 1), 0.1), sph, medium_index=1.33, illum_wavelen=lam[ch], illum_polarization=pol[ch],
                     theory=th, scaling=alpha)
        c.ensures("channel-hologram-equals-single-channel", c.eq(multi.sel(illumination=ch).transpose('x', 'y', 'z').values,
                                                                  one.transpose('x', 'y', 'z').values))
