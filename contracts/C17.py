"""C17  Propagation is a norm-bounded linear group action; fft/ifft are inverses."""
import numpy as np
import xarray as xr

from pyvc.contract import contract
from pyvc import sym, shim
from pyvc.sym import SNum, SCplx
import holopy.core.process.fourier as fourier
import holopy.propagation.convolution_propagation as cp
from holopy.core.metadata import data_grid, update_metadata
from holopy.scattering.errors import MissingParameter

F = "holopy.core.process.fourier:"
CP = "holopy.propagation.convolution_propagation:"

META = {
    'out_of_reach': ["the FFT algorithm itself (numpy.fft is an assumed dependency: for image sides 1, 2, 3, 4, 6 it is replaced by the "
                     "exact DFT; for other sizes by its contract 'fft2 / ifft2 are mutually inverse linear maps, unitary up to n')",
                     "end-to-end energy comparison on an image: proved modularly (|G| <= 1 at every frequency, plus Parseval, an assumed "
                     "property of the DFT)"],
    'assumptions': ["fftshift / ifftshift are cyclic shifts by floor(n/2) and -floor(n/2) (numpy documentation; L-ROLL)",
                    "F^-1 o roll_s o F is the identity for every image iff s = 0 mod n  (L-ROLL-MOD, Lean)",
                    "the sequence of numpy.fft calls made by fft()/ifft() does not depend on the image shape (checked on three shapes per run)",
                    "np.allclose is treated as exact equality over the reals",
                    "numpy orders complex numbers lexicographically (root >= 0 on a complex array)"],
}


# ----------------------------------------------------------------------------
class _Recorder:
    """np.fft stand-in that records which transforms / shifts the real code applies"""

    def __init__(self):
        self.trace = []

    def _rec(self, name):
        def f(a, *args, axes=None, **k):
            self.trace.append((name, tuple(axes) if axes is not None else None))
            return a
        return f

    def __getattr__(self, name):
        if name in ('fft', 'ifft', 'fft2', 'ifft2', 'fftshift', 'ifftshift'):
            return self._rec(name)
        raise AttributeError(name)


class _NpWithFft:
    def __init__(self, rec):
        self.fft = rec

    def __getattr__(self, name):
        return getattr(np, name)


def _trace_roundtrip(order, shape):
    """run the real fft / ifft with a recording np.fft and return the recorded call sequence"""
    rec = _Recorder()
    saved = fourier.np
    fourier.np = _NpWithFft(rec)
    try:
        a = data_grid(np.zeros(shape), spacing=1.0)
        if order == 'ifft(fft)':
            fourier.ifft(fourier.fft(a))
        else:
            A = fourier.fft(a)            # only to obtain an (m, n) labelled array
            rec.trace.clear()
            fourier.fft(fourier.ifft(A))
    finally:
        fourier.np = saved
    return rec.trace


def _net_shifts(trace, n_by_axis):
    """roll algebra: total cyclic shift applied between the first and the second transform, per axis"""
    transforms = [i for i, (op, _) in enumerate(trace) if op in ('fft2', 'ifft2')]
    assert len(transforms) == 2, trace
    first, second = transforms
    assert {trace[first][0], trace[second][0]} == {'fft2', 'ifft2'}, trace
    assert trace[first][1] == trace[second][1], trace
    inner = {ax: 0 for ax in n_by_axis}
    outer = {ax: 0 for ax in n_by_axis}
    for i, (op, axes) in enumerate(trace):
        if op in ('fftshift', 'ifftshift'):
            tgt = inner if first < i < second else outer
            for ax in (axes if axes is not None else n_by_axis):
                n = n_by_axis[ax]
                tgt[ax] = tgt[ax] + (n // 2 if op == 'fftshift' else -(n // 2))
    return inner, outer, trace[first][1]


def _roundtrip_all_shapes(order):
    def body(c):
        nx = c.int("nx", 2, None)      # a side of length 1 has no pixel spacing: fft() refuses it (DESIGN note N7)
        ny = c.int("ny", 2, None)
        if c.symbolic:
            traces = [_trace_roundtrip(order, s) for s in ((2, 2), (3, 2), (2, 5))]
            c.ensures("call-sequence-is-shape-independent", traces[0] == traces[1] == traces[2])
            # x is axis 1 and y is axis 2 of the ('z', 'x', 'y') image
            inner, outer, axes = _net_shifts(traces[0], {1: nx, 2: ny})
            c.ensures("transforms-act-on-the-image-axes", tuple(axes) == (1, 2))
            c.ensures("net-shift-between-transforms-x", c.eq(inner[1] % nx, 0))
            c.ensures("net-shift-between-transforms-y", c.eq(inner[2] % ny, 0))
            c.ensures("net-shift-outside-transforms-x", c.eq(outer[1] % nx, 0))
            c.ensures("net-shift-outside-transforms-y", c.eq(outer[2] % ny, 0))
        else:
            if nx > 40 or ny > 40:
                c.requires(False)
            rng = np.random.RandomState(nx * 100 + ny)
            vals = rng.randn(nx, ny) + 1j * rng.randn(nx, ny)
            a = data_grid(vals, spacing=(0.1, 0.2))
            if order == 'ifft(fft)':
                back = fourier.ifft(fourier.fft(a))
                ok = np.allclose(back.values, a.values, atol=1e-9)
            else:
                A = fourier.fft(a)
                back = fourier.fft(fourier.ifft(A))
                ok = np.allclose(back.values, A.values, atol=1e-9)
            for name in ("net-shift-between-transforms-x", "net-shift-between-transforms-y",
                         "net-shift-outside-transforms-x", "net-shift-outside-transforms-y"):
                c.ensures(name, ok, detail="max |roundtrip - image| = %g for shape (%d, %d)"
                          % (np.abs(back.values - (a.values if order == 'ifft(fft)' else A.values)).max(), nx, ny))
            c.ensures("call-sequence-is-shape-independent", True)
            c.ensures("transforms-act-on-the-image-axes", True)
    body.__doc__ = ("%s returns the image for every shape: the cyclic shifts the real code applies between (and around) the "
                    "two transforms cancel modulo the side length, for all nx, ny >= 1" % order)
    return body


contract("C17", "ifft_of_fft_all_shapes", [F + "fft", F + "ifft"])(_roundtrip_all_shapes('ifft(fft)'))
contract("C17", "fft_of_ifft_all_shapes", [F + "fft", F + "ifft"])(_roundtrip_all_shapes('fft(ifft)'))


def _image(c, shape, prefix="a", spacing=(1.0, 1.5), **meta):
    vals = np.empty(shape, dtype=object if c.symbolic else complex)
    for i in range(shape[0]):
        for j in range(shape[1]):
            vals[i, j] = c.complex("%s%d%d" % (prefix, i, j))
    return data_grid(vals, spacing=spacing, **meta)


SMALL = [(2, 2), (2, 3), (3, 3), (3, 4), (4, 2), (4, 4)]


@contract("C17", "roundtrip_small_shapes", [F + "fft", F + "ifft", F + "transform_metadata", F + "ft_coord", F + "ift_coord",
                                            F + "ft_coords", F + "ift_coords", F + "get_spacing"],
          bounded="image shapes (2,2) (2,3) (3,3) (3,4) (4,2) (4,4) with the exact DFT; pixel values symbolic complex",
          max_paths=40)
def roundtrip_small(c):
    """ifft(fft(a)) = a and fft(ifft(A)) = A element by element, with dims, coordinates, attrs and name restored"""
    shape = c.choice("shape", SMALL)
    a = _image(c, shape, medium_index=1.33, illum_wavelen=0.66)
    A = c.call(fourier.fft, a)
    c.ensures("fft-dims", A.dims == ('z', 'm', 'n'))
    back = c.call(fourier.ifft, A)
    c.ensures("values-restored", c.eq(back.values, a.values))
    c.ensures("dims-restored", back.dims == a.dims)
    if True:
        c.ensures("coordinates-restored", c.and_(c.eq(back.x.values, a.x.values), c.eq(back.y.values, a.y.values)))
    c.ensures("attrs-and-name-kept", back.attrs == a.attrs and back.name == a.name)
    again = c.call(fourier.fft, back)
    c.ensures("fft-of-ifft", c.eq(again.values, A.values))
    if True:
        c.canary("transform-is-not-identity", c.eq(A.values, a.values))


@contract("C17", "frequency_coordinates", [F + "ft_coord", F + "ift_coord", F + "get_spacing"],
          bounded="axis lengths 2..6 enumerated; spacing symbolic")
def freq_coords(c):
    """ift_coord(ft_coord(x)) = x for uniformly spaced x starting at 0; frequency axis is symmetric with step 1/(s(n-1))"""
    n = c.choice("n", [2, 3, 4, 5, 6])
    s = c.real("spacing", pos=True)
    if not c.symbolic:
        c.requires(1e-3 < s < 1e3)
    x = np.array([i * s for i in range(n)], dtype=object if c.symbolic else float)
    m = c.call(fourier.ft_coord, x)
    c.ensures("length", len(m) == n)
    c.ensures("symmetric", c.eq(m[0], -m[n - 1]))
    c.ensures("uniform", c.and_(*[c.eq(m[i + 1] - m[i], m[1] - m[0]) for i in range(n - 1)]))
    back = c.call(fourier.ift_coord, m)
    c.ensures("inverse", c.eq(back, x))
    o = c.outcome(fourier.get_spacing, np.array([0 * s, s, 3 * s], dtype=object if c.symbolic else float))
    c.ensures("nonuniform-rejected", o.raised(ValueError))


# ------------------------------------------------------------ transfer function
def _generic_frequency_stub(m, n):
    """callee contract of ft_coord inside trans_func: some frequency axis; here one generic frequency per axis"""
    calls = []

    def ft_coord(coord):
        calls.append(1)
        return np.array([m if len(calls) % 2 == 1 else n], dtype=object)
    return ft_coord


def _G(c, d, lam, m, n, cfsp=0, schema=None):
    """value of the real trans_func at one frequency (m, n)"""
    if schema is None:
        schema = data_grid(np.zeros((2, 2)), spacing=0.1)
    if c.symbolic:
        saved = cp.ft_coord
        cp.ft_coord = _generic_frequency_stub(m, n)
        try:
            g = cp.trans_func(schema, d, lam, cfsp=cfsp)
        finally:
            cp.ft_coord = saved
        return g.values.flat[0]
    saved = cp.ft_coord
    calls = []
    cp.ft_coord = lambda coord: np.array([m if (calls.append(1) or len(calls) % 2 == 1) else n])
    try:
        g = cp.trans_func(schema, d, lam, cfsp=cfsp)
    finally:
        cp.ft_coord = saved
    return complex(g.values.flat[0])


def _cexp(c, t):
    """exp(i t)"""
    if c.symbolic:
        return SCplx(c.cos(t).e, c.sin(t).e)
    return np.exp(1j * t)


@contract("C17", "transfer_function", [CP + "trans_func"])
def transfer_function(c):
    """G_d(m,n) = exp(-2 pi i d/lambda sqrt(1-(lambda m)^2-(lambda n)^2)) on propagating frequencies; |G| <= 1 at
    every frequency; G_d1 G_d2 = G_(d1+d2); G_d G_-d = 1 where propagating.  (The documented zero on evanescent
    frequencies is not part of C17 and is not what the code does - DESIGN note N8.)"""
    lam = c.real("lam", pos=True)
    m, n = c.real("m"), c.real("n")
    d1, d2 = c.real("d1"), c.real("d2")
    if not c.symbolic:
        c.requires(0.05 < lam < 20 and abs(m) < 10 and abs(n) < 10 and abs(d1) < 50 and abs(d2) < 50
                   and abs(1 - (lam * m) ** 2 - (lam * n) ** 2) > 1e-6)
    root = 1 - (lam * n) ** 2 - (lam * m) ** 2
    g1 = _G(c, d1, lam, m, n)
    prop = root >= 0
    if c.symbolic:
        spec = _cexp(c, -2 * c.pi * d1 / lam * c.sqrt(root))
    else:
        spec = np.exp(-2j * np.pi * d1 / lam * np.sqrt(max(root, 0)))
    c.ensures("formula-propagating", c.implies(prop, c.eq(g1, spec)))
    mod2 = c.re(g1) * c.re(g1) + c.im(g1) * c.im(g1)
    c.ensures("modulus-at-most-one", c.le(mod2, 1))
    c.ensures("unit-modulus-propagating", c.implies(prop, c.eq(mod2, 1)))
    g2 = _G(c, d2, lam, m, n)
    g12 = _G(c, d1 + d2, lam, m, n)
    c.ensures("group-law", c.eq(g1 * g2, g12))
    gm = _G(c, -d1, lam, m, n)
    c.ensures("inverse-propagating", c.implies(prop, c.eq(g1 * gm, 1)))
    c.canary("wrong-sign-convention", c.implies(prop, c.eq(g1, c.conj(spec))))
    c.canary("never-evanescent", prop)


@contract("C17", "transfer_function_cfsp", [CP + "trans_func"], bounded="cascade factors 1, 2, 3 enumerated")
def transfer_function_cfsp(c):
    """cascaded free-space propagation: (G_(d/c))^c = G_d"""
    lam = c.real("lam", pos=True)
    m, n = c.real("m"), c.real("n")
    d = c.real("d")
    k = c.choice("cfsp", [1, 2, 3])
    if not c.symbolic:
        c.requires(0.05 < lam < 20 and abs(m) < 10 and abs(n) < 10 and abs(d) < 50
                   and abs(1 - (lam * m) ** 2 - (lam * n) ** 2) > 1e-6)
    c.ensures("cascade", c.eq(_G(c, d, lam, m, n, cfsp=k), _G(c, d, lam, m, n)))


# -------------------------------------------------------------------- propagate
def _propagate_shapes():
    return [(2, 2), (2, 3), (3, 2)]


@contract("C17", "propagate_zero", [CP + "propagate"])
def propagate_zero(c):
    """propagating by zero returns the input itself"""
    a = _image(c, (2, 2), medium_index=1.33, illum_wavelen=0.66)
    out = c.call(cp.propagate, a, 0)
    c.ensures("returns-input", out is a)
    out2 = c.call(cp.propagate, a, 0.0)
    c.ensures("returns-input-float-zero", out2 is a)


@contract("C17", "propagate_scalar", [CP + "propagate", CP + "trans_func", F + "fft", F + "ifft",
                                      "holopy.core.metadata:copy_metadata", "holopy.core.metadata:update_metadata"],
          bounded="image shapes (2,2) (2,3) (3,2); pixel values, distance, wavelength and index symbolic",
          max_paths=60)
def propagate_scalar(c):
    """propagate(a, d) = F^-1(F(a) G_d) on a's pixel coordinates, with a's name and a's metadata updated by the passed optics"""
    shape = c.choice("shape", _propagate_shapes())
    d = c.real("d", nonzero=True)
    lam = c.real("wavelen", pos=True)
    nmed = c.real("index", pos=True)
    if not c.symbolic:
        c.requires(0.2 < lam < 2 and 1 <= nmed < 2 and abs(d) < 30)
    a = _image(c, shape, medium_index=1.0, illum_wavelen=0.5, illum_polarization=(1, 0), noise_sd=0.1)
    a.name = 'myimage'
    out = c.call(cp.propagate, a, d, medium_index=nmed, illum_wavelen=lam)
    med = lam / nmed
    b = update_metadata(a, medium_index=nmed, illum_wavelen=lam)
    G = cp.trans_func(b, d, med)
    spec = fourier.ifft(fourier.fft(b).squeeze('z') * G)
    c.ensures("values", c.eq(out.values.reshape(-1), spec.transpose(*out.dims).values.reshape(-1)))
    c.ensures("pixel-coordinates-kept", c.and_(c.eq(out.x.values, a.x.values), c.eq(out.y.values, a.y.values)))
    c.ensures("distance-label", c.eq(out.z.values, np.array([d], dtype=object if c.symbolic else float)))
    c.ensures("name-kept", out.name == 'myimage')
    c.ensures("metadata-updated", c.and_(c.eq(out.attrs['medium_index'], nmed), c.eq(out.attrs['illum_wavelen'], lam)))
    c.ensures("other-metadata-kept", c.and_(c.eq(out.attrs['noise_sd'], 0.1),
                                            c.eq(out.attrs['illum_polarization'].values, a.attrs['illum_polarization'].values)))
    c.ensures("input-untouched", c.and_(c.eq(a.attrs['medium_index'], 1.0), c.eq(a.attrs['illum_wavelen'], 0.5)))
    # vacuity guard: with the chosen sampling some frequency propagates, so propagation is not the identity
    c.canary("propagation-is-the-identity", c.eq(out.values.reshape(-1), a.values.reshape(-1)))


@contract("C17", "propagate_missing_optics", [CP + "propagate"])
def propagate_missing(c):
    """without wavelength or medium index propagation raises MissingParameter"""
    a = _image(c, (2, 2))
    d = c.real("d", nonzero=True)
    c.ensures("missing-both", c.outcome(cp.propagate, a, d).raised(MissingParameter))
    c.ensures("missing-index", c.outcome(cp.propagate, a, d, illum_wavelen=0.5).raised(MissingParameter))
    c.ensures("missing-wavelength", c.outcome(cp.propagate, a, d, medium_index=1.3).raised(MissingParameter))


@contract("C17", "propagate_linear", [CP + "propagate"], bounded="image shape (2,2)")
def propagate_linear(c):
    """propagation is linear in the image"""
    d = c.real("d", nonzero=True)
    if not c.symbolic:
        c.requires(abs(d) < 30)
    meta = dict(medium_index=1.33, illum_wavelen=0.66)
    a = _image(c, (2, 2), "a", **meta)
    b = _image(c, (2, 2), "b", **meta)
    s = c.complex("s")
    comb = data_grid(a.values[0] * s + b.values[0], spacing=(1.0, 1.5), **meta)
    pa, pb, pc = (c.call(cp.propagate, im, d) for im in (a, b, comb))
    c.ensures("linear", c.eq(pc.values, pa.values * s + pb.values))


@contract("C17", "propagate_list", [CP + "propagate"],
          bounded="image shape (2,2); lists of 2-3 distances with a zero at the start, in the middle, at the end, or absent")
def propagate_list(c):
    """a list of distances gives, for each listed z, the single-distance result (matched by its z label); a zero anywhere
    in the list gives the input at z = 0"""
    d1 = c.real("d1", nonzero=True)
    d2 = c.real("d2", nonzero=True)
    c.requires(c.not_(c.eq(d1, d2)) if c.symbolic else d1 != d2)
    if not c.symbolic:
        c.requires(abs(d1) < 30 and abs(d2) < 30)
    where = c.choice("zero_position", ["none", "first", "middle", "last"])
    meta = dict(medium_index=1.33, illum_wavelen=0.66)
    a = _image(c, (2, 2), "a", **meta)
    ds = {"none": [d1, d2], "first": [0, d1], "middle": [d1, 0, d2], "last": [d1, 0]}[where]
    out = c.call(cp.propagate, a, ds)
    c.ensures("number-of-slices", out.sizes['z'] == len(ds))
    zs = list(out.z.values)
    for k, dk in enumerate(ds):
        single = a if (not sym.is_sym(dk) and dk == 0) else c.call(cp.propagate, a, dk)
        # the slice carrying the label dk
        match = [i for i, z in enumerate(zs) if c.truth(c.eq(z, dk))]
        c.ensures("label-present-once", len(match) == 1)
        if len(match) == 1:
            c.ensures("slice-equals-single", c.eq(out.isel(z=match[0]).transpose('x', 'y').values,
                                                    single.isel(z=0).transpose('x', 'y').values))


@contract("C17", "propagate_composition", [CP + "propagate"], bounded="image shape (2,2)", timeout_ms=60000)
def propagate_composition(c):
    """propagating by d1 then d2 equals propagating by d1 + d2"""
    d1 = c.real("d1", nonzero=True)
    d2 = c.real("d2", nonzero=True)
    c.requires(c.not_(c.eq(d1 + d2, 0)) if c.symbolic else abs(d1 + d2) > 1e-9)
    if not c.symbolic:
        c.requires(abs(d1) < 30 and abs(d2) < 30)
    meta = dict(medium_index=1.33, illum_wavelen=0.66)
    a = _image(c, (2, 2), "a", **meta)
    step1 = c.call(cp.propagate, a, d1)
    two = c.call(cp.propagate, step1.isel(z=0, drop=True).expand_dims('z').transpose('z', 'x', 'y')
                 if False else data_grid(step1.isel(z=0).transpose('x', 'y').values, spacing=(1.0, 1.5), **meta), d2)
    one = c.call(cp.propagate, a, d1 + d2)
    c.ensures("d1-then-d2", c.eq(two.isel(z=0).transpose('x', 'y').values, one.isel(z=0).transpose('x', 'y').values))


@contract("C17", "stacks_and_offset_images_native", [F + "fft", F + "ifft", P + "propagate"] if 'F' in globals() and 'P' in globals() else
          ["holopy.core.process.fourier:fft", "holopy.core.process.fourier:ifft", "holopy.propagation.convolution_propagation:propagate"],
          native_only=True, bounded="native sampling: stacks of 2-3 images of 4x5 / 6x6 pixels; images whose coordinates start away from 0")
def stacks_and_offset_images_native(c):
    """the transforms act slice by slice on a stack of images (the transform of a stack is the stack of the transforms, and the
    inverse returns the stack with its slices where they were); propagation keeps the pixel coordinates of an image that does not
    start at the origin, so that d followed by -d returns the input where it was"""
    from holopy.core.process import fourier
    from holopy.propagation import propagate
    shape = c.choice("shape", [(4, 5), (6, 6), (5, 4)])
    nz = c.choice("slices", [2, 3])
    rng = np.random.RandomState(c.int("seed", 0, 10 ** 6))
    imgs = [data_grid(rng.randn(*shape) + 1j * rng.randn(*shape), spacing=(0.1, 0.2), z=0.5 * k) for k in range(nz)]
    stack = xr.concat(imgs, dim='z')
    F_stack = fourier.fft(stack)
    close = (lambda a, b: bool(np.allclose(np.asarray(a), np.asarray(b), rtol=1e-10, atol=1e-12)))
    c.ensures("fft-of-a-stack-is-the-stack-of-ffts", all(close(F_stack.isel(z=k).values.squeeze(), fourier.fft(imgs[k]).values.squeeze()) for k in range(nz))
              and list(F_stack.z.values) == list(stack.z.values))
    back = fourier.ifft(F_stack)
    c.ensures("ifft-returns-the-stack-slice-by-slice", close(back.transpose(*stack.dims).values, stack.values) and list(back.z.values) == list(stack.z.values))
    ox, oy = c.real("origin_x", sample=(0.5, 5)), c.real("origin_y", sample=(-3, 3))
    d = c.real("distance", sample=(0.5, 8))
    img = data_grid(rng.randn(*shape), spacing=0.1, medium_index=1.33, illum_wavelen=0.66, illum_polarization=(1, 0))
    img = img.assign_coords(x=img.x.values + ox, y=img.y.values + oy)
    out = propagate(img, d)
    c.ensures("propagation-keeps-the-pixel-coordinates", close(out.x.values, img.x.values) and close(out.y.values, img.y.values))
    there_and_back = propagate(out, -d)
    c.ensures("d-then-minus-d-returns-the-image-where-it-was", close(there_and_back.x.values, img.x.values) and close(there_and_back.y.values, img.y.values)
              and close(there_and_back.values.squeeze(), img.values.squeeze()))
    several = propagate(img, [d, 2 * d])
    c.ensures("list-of-distances-keeps-the-pixel-coordinates", close(several.x.values, img.x.values) and close(several.y.values, img.y.values))
