"""C01  Hologram = |scaling*scattered field + unit reference wave|^2 on the detector."""
import numpy as np
import xarray as xr

from pyvc.contract import contract
from pyvc import sym
import holopy.scattering.interface as si
from holopy.scattering.interface import calc_holo, calc_field, calc_intensity
from holopy.scattering.scatterer import Sphere, Spheres, Ellipsoid
from holopy.scattering.errors import MissingParameter, TheoryNotCompatibleError
from holopy.core.metadata import detector_grid, detector_points, to_vector, update_metadata
from contracts.common import AbstractPointTheory

SI = "holopy.scattering.interface:"
IF = "holopy.scattering.imageformation:"
MD = "holopy.core.metadata:"
FN = [SI + "calc_holo", SI + "calc_field", SI + "calc_intensity", SI + "scattered_field_to_hologram", SI + "finalize",
      SI + "prep_schema", SI + "interpret_theory", SI + "validate_scatterer",
      IF + "ImageFormation.calculate_scattered_field", IF + "ImageFormation._calculate_single_color_scattered_field",
      IF + "ImageFormation._get_field_from", IF + "ImageFormation._pack_field_into_xarray",
      IF + "ImageFormation._transform_to_desired_coordinates", IF + "get_wavevec_from",
      MD + "update_metadata", MD + "to_vector", MD + "copy_metadata", MD + "flat", MD + "from_flat"]

META = {
    'out_of_reach': ["finiteness of the values returned by the compiled kernels",
                     "independence from call history inside the compiled solvers (Fortran COMMON/SAVE state is invisible to contracts "
                     "on the Python code; the kernels are assumed deterministic functions of their arguments)"],
    'assumptions': ["the scattering theory is an abstract object whose raw_fields is an opaque, deterministic, pointwise function of the "
                    "dimensionless arguments the real hand-off code passes to it (contracts/common.py); everything around that call - "
                    "coordinates, phase factor, scaling, reference wave, squared modulus, metadata - is the real code",
                    "detector shapes are small and concrete (2x2 grid, 2x3 grid, 3 points): bounded; all optical and geometric values symbolic"],
}


def _detector(c, kind):
    if kind == "grid2x2":
        return detector_grid(2, 0.1)
    if kind == "grid2x3":
        return detector_grid((2, 3), (0.1, 0.25))
    return detector_points(x=np.array([0.0, 0.3, -0.2]), y=np.array([0.1, 0.0, 0.4]), z=np.array([0.0, 0.0, 0.5]))


def _optics(c):
    n_med = c.real("medium_index", pos=True, sample=(1.0, 1.9))
    lam = c.real("wavelen", pos=True, sample=(0.3, 1.5))
    px, py = c.real("pol_x", sample=(-2, 2)), c.real("pol_y", sample=(-2, 2))
    c.requires(c.not_(c.and_(c.eq(px, 0), c.eq(py, 0))) if c.symbolic else abs(px) + abs(py) > 1e-3)
    if not c.symbolic:
        c.requires(0.2 < lam < 2 and 1 <= n_med < 2)
    return n_med, lam, px, py


def _sphere(c):
    cen = c.vec("c", sample=(-3, 3))
    r = c.real("r", pos=True, sample=(0.1, 2))
    n = c.real("n", pos=True, sample=(1.1, 2.5))
    if not c.symbolic:
        c.requires(0.05 < r < 3 and 1 < n < 3 and all(abs(v) < 20 for v in cen))
    return Sphere(n=n, r=r, center=cen), cen, r, n


def _vals(da, dims):
    return da.transpose(*dims).values


def _main(kind):
    def body(c):
        det = _detector(c, kind)
        det.name = 'mydetector'
        n_med, lam, px, py = _optics(c)
        sph, cen, r, n = _sphere(c)
        alpha = c.real("scaling", sample=(-2, 2))
        th = AbstractPointTheory()
        kw = dict(medium_index=n_med, illum_wavelen=lam, illum_polarization=(px, py), theory=th)
        field = c.call(calc_field, det, sph, **kw)
        holo = c.call(calc_holo, det, sph, scaling=alpha, **kw)
        inten = c.call(calc_intensity, det, sph, **kw)
        norm = c.sqrt(px * px + py * py)
        pol = [px / norm, py / norm]
        space = [d for d in field.dims if d != 'vector']
        F = field.transpose(*space, 'vector').values
        H = holo.transpose(*space).values
        I = inten.transpose(*space).values
        for idx in np.ndindex(*H.shape):
            ex, ey = F[idx + (0,)], F[idx + (1,)]
            tx, ty = alpha * ex + pol[0], alpha * ey + pol[1]
            spec_h = c.re(tx) ** 2 + c.im(tx) ** 2 + c.re(ty) ** 2 + c.im(ty) ** 2
            c.ensures("hologram-formula", c.eq(H[idx], spec_h))
            c.ensures("intensity-formula", c.eq(I[idx], c.re(ex) ** 2 + c.im(ex) ** 2 + c.re(ey) ** 2 + c.im(ey) ** 2))
        # the kernel is asked for exactly the detector's pixels: k * (pixel - centre), z measured against the light
        import holopy.core.math as hmath
        from holopy.core.metadata import flat
        fl = flat(det)
        k = 2 * c.pi / (lam / n_med)
        A = (lambda v: np.array(v, dtype=object if c.symbolic else float))
        want = hmath.transform_cartesian_to_spherical([A([k * (x - cen[0]) for x in fl.x.values]),
                                                       A([k * (y - cen[1]) for y in fl.y.values]),
                                                       A([k * (cen[2] - z) for z in fl.z.values])])
        c.ensures("kernel-evaluated-at-the-detector-pixels", c.and_(len(th.calls) >= 1, *[c.eq(call['pos'], want) for call in th.calls]))
        c.ensures("kernel-wavevector", c.and_(*[c.eq(call['k'], k) for call in th.calls]))
        zero = c.call(calc_holo, det, sph, scaling=0, **kw)
        c.ensures("scaling-zero-gives-one", c.and_(*[c.eq(v, 1) for v in zero.values.flat]))
        # coordinates and metadata
        for out, nm in ((holo, "hologram"), (inten, "intensity"), (field, "field")):
            same = [(k in out.coords) and c.eq(out[k].values, det[k].values) for k in ('x', 'y', 'z')]
            c.ensures(nm + "-on-detector-coordinates", c.and_(set(out.dims) - {'vector'} == set(det.dims), *same))
            p_attr = out.attrs.get('illum_polarization')
            c.ensures(nm + "-metadata", c.and_(c.eq(out.attrs.get('medium_index'), n_med), c.eq(out.attrs.get('illum_wavelen'), lam),
                                               p_attr is not None and c.eq(p_attr.values[0] * norm, px),
                                               p_attr is not None and c.eq(p_attr.values[1] * norm, py),
                                               out.name == 'mydetector'))
        # frame: the arguments are not modified
        c.ensures("detector-untouched", c.and_(det.attrs.get('medium_index') is None, det.attrs.get('illum_wavelen') is None,
                                               float(abs(det.values).sum()) == 0.0, det.name == 'mydetector'))
        c.ensures("scatterer-untouched", c.and_(c.eq(np.array(sph.center), cen), c.eq(sph.r, r), c.eq(sph.n, n)))
        if H.size:
            first = tuple(0 for _ in H.shape)
            ex = F[first + (0,)]
            c.canary("reference-subtracted", c.eq(H[first], c.re(alpha * ex - pol[0]) ** 2 + c.im(alpha * ex - pol[0]) ** 2
                                                  + c.re(alpha * F[first + (1,)] - pol[1]) ** 2 + c.im(alpha * F[first + (1,)] - pol[1]) ** 2))
    body.__doc__ = ("calc_holo = sum over the two transverse components of |scaling*E + unit polarization|^2 pixel by pixel, where E is what "
                    "calc_field returns; calc_intensity = |E|^2; scaling 0 gives exactly 1; results lie on the detector's coordinates and "
                    "carry its metadata updated by the passed optics; arguments untouched  (detector: %s)" % kind)
    return body


for _k in ("grid2x2", "grid2x3", "points"):
    contract("C01", "hologram_" + _k, FN, bounded="detector %s; optics, sphere and scaling symbolic" % _k, timeout_ms=60000)(_main(_k))


@contract("C01", "optics_from_detector", FN[:3] + [SI + "prep_schema"], bounded="2x2 detector")
def optics_from_detector(c):
    """optics stored on the detector are used when none are passed, and passed optics override exactly the given fields"""
    n_det, lam_det = c.real("det_index", pos=True, sample=(1.0, 1.9)), c.real("det_wavelen", pos=True, sample=(0.3, 1.5))
    n_med, lam = c.real("medium_index", pos=True, sample=(1.0, 1.9)), c.real("wavelen", pos=True, sample=(0.3, 1.5))
    if not c.symbolic:
        c.requires(0.2 < lam < 2 and 1 <= n_med < 2 and 0.2 < lam_det < 2 and 1 <= n_det < 2)
    det = update_metadata(detector_grid(2, 0.1), medium_index=n_det, illum_wavelen=lam_det, illum_polarization=(0, 1), noise_sd=0.3)
    sph, cen, r, n = _sphere(c)
    th = AbstractPointTheory()
    a = c.call(calc_holo, det, sph, theory=th)
    c.ensures("detector-optics-used", c.and_(c.eq(a.attrs['medium_index'], n_det), c.eq(a.attrs['illum_wavelen'], lam_det),
                                             c.eq(a.attrs['noise_sd'], 0.3)))
    b = c.call(calc_holo, det, sph, medium_index=n_med, theory=th)
    c.ensures("override-one-field", c.and_(c.eq(b.attrs['medium_index'], n_med), c.eq(b.attrs['illum_wavelen'], lam_det),
                                           c.eq(b.attrs['illum_polarization'].values, np.array([0., 1., 0.]))))
    same = c.call(calc_holo, update_metadata(detector_grid(2, 0.1), noise_sd=0.3), sph, medium_index=n_det, illum_wavelen=lam_det,
                  illum_polarization=(0, 1), theory=th)
    c.ensures("passing-or-storing-is-equivalent", c.eq(same.values, a.values))


@contract("C01", "missing_parameters", [SI + "prep_schema", SI + "calc_holo", IF + "ImageFormation.calculate_scattered_field",
                                        IF + "ImageFormation._calculate_single_color_scattered_field"])
def missing_parameters(c):
    """missing wavelength / index / polarization / centre raise MissingParameter; an incompatible theory raises TheoryNotCompatibleError"""
    det = detector_grid(2, 0.1)
    sph, cen, r, n = _sphere(c)
    th = AbstractPointTheory()
    full = dict(medium_index=1.33, illum_wavelen=0.66, illum_polarization=(1, 0))
    for miss in full:
        kw = {k: v for k, v in full.items() if k != miss}
        c.ensures("missing-" + miss, c.outcome(calc_holo, det, sph, theory=th, **kw).raised(MissingParameter))
    nocentre = Sphere(n=n, r=r)
    c.ensures("missing-centre", c.outcome(calc_holo, det, nocentre, theory=th, **full).raised(MissingParameter))
    ell = Ellipsoid(n=1.5, r=(1., 2., 3.), center=cen)
    c.ensures("incompatible-theory", c.outcome(calc_holo, det, ell, theory=th, **full).raised(TheoryNotCompatibleError))
    c.ensures("complete-call-accepted", c.outcome(calc_holo, det, sph, theory=th, **full).ok)


@contract("C01", "to_vector", [MD + "to_vector"])
def to_vector_c(c):
    """to_vector((a, b)) = (a, b, 0)/sqrt(a^2+b^2): unit length; idempotent; dictionaries mapped key-wise without modifying the caller's dict"""
    a, b = c.real("a"), c.real("b")
    c.requires(c.not_(c.and_(c.eq(a, 0), c.eq(b, 0))) if c.symbolic else abs(a) + abs(b) > 1e-6)
    v = c.call(to_vector, (a, b))
    norm = c.sqrt(a * a + b * b)
    c.ensures("components", c.and_(c.eq(v.values[0] * norm, a), c.eq(v.values[1] * norm, b), c.eq(v.values[2], 0)))
    c.ensures("unit-norm", c.eq(sum(x * x for x in v.values), 1))
    c.ensures("labels", list(v.vector.values) == ['x', 'y', 'z'])
    c.ensures("idempotent", c.call(to_vector, v) is v)
    z = c.real("z3")
    v3 = c.call(to_vector, (a, b, z))
    n3 = c.sqrt(a * a + b * b + z * z)
    c.ensures("three-components", c.and_(c.eq(v3.values[0] * n3, a), c.eq(v3.values[2] * n3, z)))
    d = {'red': (a, b), 'green': (1, 0)}
    out = c.call(to_vector, d)
    c.ensures("dictionary-keywise", c.and_(set(out) == {'red', 'green'}, c.eq(out['red'].values[0] * norm, a), out is not d,
                                           isinstance(d['red'], tuple)))
    c.ensures("none-and-false-pass-through", c.call(to_vector, None) is None and c.call(to_vector, False) is False)
    c.canary("not-normalised", c.eq(v.values[0], a))


@contract("C01", "hologram_multi_channel", FN + [IF + "ImageFormation._calculate_multiple_color_scattered_field", MD + "dict_to_array",
                                                 MD + "clean_concat"],
          bounded="two illumination channels; per-channel wavelength, polarization and scaling dictionaries with independent key orders; 2x1 grid",
          timeout_ms=60000, max_paths=40)
def hologram_multi_channel(c):
    """with several illumination channels the hologram of EACH channel is |scaling_ch * E_ch + unit polarization_ch|^2 summed over x, y -
    exactly the single-channel hologram computed with that channel's wavelength, polarization and scaling (matched by label, whatever
    order the dictionaries list the channels in), and the returned per-channel metadata carries each channel's own values"""
    orders = [("red", "green"), ("green", "red")]
    lam_order = c.choice("wavelength_key_order", orders)
    pol_order = c.choice("polarization_key_order", orders)
    sc_order = c.choice("scaling_key_order", orders)
    lam = {"red": c.real("lam_red", pos=True, sample=(0.6, 0.7)), "green": c.real("lam_green", pos=True, sample=(0.5, 0.56))}
    pol = {"red": (1, 0), "green": (0, 1)}
    alpha = {"red": c.real("scaling_red", sample=(0.3, 1.2)), "green": c.real("scaling_green", sample=(0.3, 1.2))}
    n, r = c.real("n", pos=True, sample=(1.4, 1.7)), c.real("r", pos=True, sample=(0.2, 1))
    cen = [c.real("cx", sample=(-1, 1)), c.real("cy", sample=(-1, 1)), c.real("cz", sample=(3, 9))]
    labels = list(lam_order)
    det = detector_grid((2, 1), 0.1, extra_dims={'illumination': labels})
    th = AbstractPointTheory()
    sph = Sphere(n=n, r=r, center=cen)
    multi = c.call(calc_holo, det, sph, medium_index=1.33, illum_wavelen={k: lam[k] for k in lam_order},
                   illum_polarization={k: pol[k] for k in pol_order}, theory=th, scaling={k: alpha[k] for k in sc_order})
    c.ensures("channel-labels", sorted(multi.illumination.values) == ["green", "red"])
    for ch in ("red", "green"):
        one = c.call(calc_holo, detector_grid((2, 1), 0.1), sph, medium_index=1.33, illum_wavelen=lam[ch], illum_polarization=pol[ch],
                     theory=th, scaling=alpha[ch])
        c.ensures("channel-hologram-is-the-single-channel-hologram", c.eq(multi.sel(illumination=ch).transpose('x', 'y', 'z').values,
                                                                          one.transpose('x', 'y', 'z').values))
        c.ensures("channel-wavelength-in-metadata", c.eq(multi.illum_wavelen.sel(illumination=ch).values, lam[ch]))
        c.ensures("channel-polarization-in-metadata", c.eq(multi.illum_polarization.sel(illumination=ch).values[:2], np.array(pol[ch], dtype=float)))
    c.canary("channels-identical", c.eq(multi.sel(illumination="red").values, multi.sel(illumination="green").values))
