"""Stand-ins for the kernels the Python hand-off code calls (DESIGN.md 3.3).

The compiled Fortran extensions are not built in this sandbox and the special-function /
quadrature internals of the lens theories are outside the symbolic subset.  The hand-off code that
surrounds them is verified "as deployed": inside a contract the kernel entry points are replaced by
*recording opaque functions* - deterministic functions of exactly the arguments they are given.

  symbolic mode : the value is `Path.opaque(name, args)` - equal arguments give equal values
                  (congruence instances), nothing else is known about the kernel;
  native mode   : a fixed smooth pseudo-random function of the float arguments, so that a replay
                  notices any difference in what the kernel is handed.
"""
import contextlib
import math

import numpy as np

from pyvc import sym
from pyvc.sym import SNum, SCplx
from contracts.common import _z


def _native(name, args):
    """deterministic smooth function of the arguments (native replays only)"""
    acc = 0.0
    seed = sum(ord(ch) for ch in name) % 97
    for i, a in enumerate(args):
        a = complex(a)
        acc += math.sin(0.731 * (i + 1) * a.real + 0.37 * seed + 0.11 * i) + 0.5 * math.cos(1.17 * (i + 2) * a.imag + seed)
    return acc


def opaque_real(name, args):
    if sym.active():
        zargs = [t for a in args for t in _z(a)]
        return SNum(sym.cur().opaque(name, zargs))
    return _native(name, args)


def opaque_complex(name, args):
    if sym.active():
        zargs = [t for a in args for t in _z(a)]
        p = sym.cur()
        return SCplx(p.opaque(name + "_re", zargs), p.opaque(name + "_im", zargs))
    return complex(_native(name + "_re", args), _native(name + "_im", args))


class Coeffs:
    """what a scattering-coefficient kernel returns: an opaque object identified by the arguments
    it was computed from; array-like access gives opaque complex entries"""

    def __init__(self, name, args, shape=(2, 3)):
        self.name = name
        self.args = list(args)
        self.shape = shape
        self._arr = None

    def array(self):
        if self._arr is None:
            a = np.empty(self.shape, dtype=object if sym.active() else complex)
            for idx in np.ndindex(*self.shape):
                a[idx] = opaque_complex("%s_%s" % (self.name, "_".join(map(str, idx))), self.args)
            self._arr = a
        return self._arr

    def __getitem__(self, k):
        return self.array()[k]

    def __len__(self):
        return self.shape[0]


class Recorder:
    def __init__(self):
        self.calls = []

    def rec(self, name, **kw):
        self.calls.append((name, kw))


# --------------------------------------------------------------------------- Lorenz-Mie
@contextlib.contextmanager
def mie_kernels(rec=None, lmax=3):
    """Mie() as deployed: extension present.  miescatlib.nstop / scatcoeffs, scatcoeffs_multi and
    mieangfuncs.mie_fields / asm_mie_far are recording opaque functions; miescatlib.cross_sections /
    asymmetry_parameter are the REAL Python functions."""
    import holopy.scattering.theory.mie as mie
    import holopy.scattering.theory.mie_f.miescatlib as real_msl
    rec = rec if rec is not None else Recorder()

    class _Msl:
        cross_sections = staticmethod(real_msl.cross_sections)
        asymmetry_parameter = staticmethod(real_msl.asymmetry_parameter)

        @staticmethod
        def nstop(x):
            rec.rec('nstop', x=x)
            return ('nstop', x)

        @staticmethod
        def scatcoeffs(m, x, lmax_, eps1=None, eps2=None):
            rec.rec('scatcoeffs', m=m, x=x, lmax=lmax_, eps1=eps1, eps2=eps2)
            nx = lmax_[1] if isinstance(lmax_, tuple) else lmax_
            return Coeffs('ab', [m, x, nx], shape=(2, lmax))

    def scatcoeffs_multi(m_arr, x_arr, eps1=None, eps2=None):
        rec.rec('scatcoeffs_multi', m=list(m_arr), x=list(x_arr), eps1=eps1, eps2=eps2)
        return Coeffs('abm', list(m_arr) + list(x_arr), shape=(2, lmax))

    class _Ang:
        @staticmethod
        def mie_fields(positions, coeffs, pol, radial, full):
            rec.rec('mie_fields', positions=positions, coeffs=coeffs, pol=list(pol), radial=radial, full=full)
            npts = positions.shape[1]
            out = np.empty((3, npts), dtype=object if sym.active() else complex)
            for t in range(npts):
                args = list(positions[:, t]) + coeffs.args + list(pol)
                for comp in range(3):
                    out[comp, t] = opaque_complex("miefield%d" % comp, args)
            return out

        @staticmethod
        def asm_mie_far(coeffs, theta):
            rec.rec('asm_mie_far', coeffs=coeffs, theta=theta)
            a = np.empty((2, 2), dtype=object if sym.active() else complex)
            for idx in np.ndindex(2, 2):
                a[idx] = opaque_complex("asm%d%d" % idx, coeffs.args + [theta])
            return a

    saved = {k: mie.__dict__.get(k, None) for k in ('_COMPILED_FORTRAN', 'mieangfuncs', 'miescatlib', 'scatcoeffs_multi')}
    had = {k: k in mie.__dict__ for k in saved}
    mie._COMPILED_FORTRAN = True
    mie.mieangfuncs = _Ang
    mie.miescatlib = _Msl
    mie.scatcoeffs_multi = scatcoeffs_multi
    try:
        yield rec
    finally:
        for k, v in saved.items():
            if had[k]:
                setattr(mie, k, v)
            else:
                mie.__dict__.pop(k, None)


# --------------------------------------------------------------------------- Mie + lens
@contextlib.contextmanager
def mielens_kernels(rec=None):
    """MieLensCalculator with its pupil integrals I_0(k rho), I_2(k rho) as recording opaque functions of
    (k rho, particle_kz, index_ratio, size_parameter, lens_angle [, aberration]); everything else in the
    calculator and in MieLens.raw_fields is the real code."""
    import holopy.scattering.theory.mielensfunctions as mlf
    rec = rec if rec is not None else Recorder()
    saved_init = mlf.MieLensCalculator.__init__
    saved_eval = mlf.MieLensCalculator._eval_mielens_i_n
    saved_ab_init = mlf.AberratedMieLensCalculator.__init__

    def init(self, particle_kz=None, index_ratio=None, size_parameter=None, lens_angle=None, quad_npts=100, **kw):
        self.particle_kz = particle_kz
        self.index_ratio = index_ratio
        self.size_parameter = size_parameter
        self.lens_angle = lens_angle
        self._check_parameters()
        self.quad_npts = quad_npts
        self.extra = []
        rec.rec('calculator', particle_kz=particle_kz, index_ratio=index_ratio, size_parameter=size_parameter,
                lens_angle=lens_angle)

    def ab_init(self, spherical_aberration=None, **kwargs):
        self.spherical_aberration = spherical_aberration
        init(self, **kwargs)
        self.extra = list(np.atleast_1d(np.array(spherical_aberration, dtype=object)))

    def eval_i_n(self, krho, n=0):
        vals = np.empty(np.shape(krho), dtype=object if sym.active() else complex)
        base = [self.particle_kz, self.index_ratio, self.size_parameter, self.lens_angle] + list(getattr(self, 'extra', []))
        flatk = np.asarray(krho, dtype=object).reshape(-1)
        out = [opaque_complex("I%d" % n, [kr] + base) for kr in flatk]
        vals.reshape(-1)[:] = out
        return vals

    mlf.MieLensCalculator.__init__ = init
    mlf.MieLensCalculator._eval_mielens_i_n = eval_i_n
    mlf.AberratedMieLensCalculator.__init__ = ab_init
    try:
        yield rec
    finally:
        mlf.MieLensCalculator.__init__ = saved_init
        mlf.MieLensCalculator._eval_mielens_i_n = saved_eval
        mlf.AberratedMieLensCalculator.__init__ = saved_ab_init
