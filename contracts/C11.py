"""C11  Model parameters map to exactly the places their priors were used."""
import itertools
import math
import operator

import numpy as np
import xarray as xr

from pyvc.contract import contract
from pyvc import sym
from holopy.core.mapping import Mapper, read_map, edit_map_indices
from holopy.core.prior import Uniform, Gaussian, ComplexPrior, TransformedPrior, Prior
from holopy.inference.model import AlphaModel, ExactModel
from holopy.scattering.interface import validate_scatterer
from holopy.scattering.scatterer import (Sphere, Spheres, Scatterers, Ellipsoid, Spheroid, Cylinder, Capsule,
                                         Bisphere, JanusSphere_Uniform, LayeredSphere)
from holopy.scattering.scatterer.spherecluster import RigidCluster
from holopy.scattering.theory import MieLens
from contracts.common import AbstractPointTheory

MP = "holopy.core.mapping:"
MO = "holopy.inference.model:"
SC = "holopy.scattering.scatterer."

META = {
    'out_of_reach': [],
    'assumptions': ["str.format / str.split round-trip the '_parameter_<i>' and '<i>:<key>' strings (Python string semantics, executed natively)",
                    "parameter structures are enumerated (a family of trees of depth <= 3 and width <= 3 with shared, named, transformed, "
                    "complex, per-channel and array-valued priors): bounded; parameter VALUES are symbolic",
                    "tie renumbering is checked exhaustively for up to 7 parameters and tie sets of size 2-5 (the property's bound): bounded"],
}


def _priors(n):
    return [Uniform(0.1 * k, 1.0 + k) for k in range(n)]


def _structure(which, P):
    """a parameter tree, and a function rebuilding its expected value from parameter values keyed by prior identity"""
    p0, p1, p2 = P[:3]
    if which == "shared":
        tree = {'n': p0, 'r': p1, 'center': [p2, 3.0, p0]}
        expect = lambda v: {'n': v(p0), 'r': v(p1), 'center': [v(p2), 3.0, v(p0)]}
        order = [p0, p1, p2]
    elif which == "transformed":
        tree = {'n': p0 + 2, 'r': p1 * p2, 'center': [p2, -p1, 1.0]}
        expect = lambda v: {'n': v(p0) + 2, 'r': v(p1) * v(p2), 'center': [v(p2), v(p1) * -1, 1.0]}
        order = [p0, p1, p2]
    elif which == "complex":
        tree = {'n': ComplexPrior(p0, 0.01), 'r': [p1, p1], 'alpha': ComplexPrior(1.5, p2)}
        expect = lambda v: {'n': ('cplx', v(p0), 0.01), 'r': [v(p1), v(p1)], 'alpha': ('cplx', 1.5, v(p2))}
        order = [p0, p1, p2]
    elif which == "per-channel":
        tree = {'n': {'red': p0, 'green': p1}, 'r': p2, 'wl': {'red': 0.6, 'green': p0}}
        expect = lambda v: {'n': {'red': v(p0), 'green': v(p1)}, 'r': v(p2), 'wl': {'red': 0.6, 'green': v(p0)}}
        order = [p0, p1, p2]
    elif which == "nested":
        tree = [{'a': [p0, [p1, 2.0]], 'b': None}, (p2, p0), 'text']
        expect = lambda v: [{'a': [v(p0), [v(p1), 2.0]]}, [v(p2), v(p0)], 'text']
        order = [p0, p1, p2]
    elif which == "array":
        tree = {'r': np.array([p0, 0.5, p1], dtype=object), 'n': xr.DataArray(np.array([p2, 1.5], dtype=object), dims=['illumination'],
                                                                             coords={'illumination': ['red', 'green']})}
        expect = lambda v: {'r': [v(p0), 0.5, v(p1)], 'n': ('xr', {'red': v(p2), 'green': 1.5})}
        order = [p0, p1, p2]
    elif which == "wide":
        # thirteen parameters: placeholders with two-digit indices
        tree = {'parts': [{'r': P[3 * k], 'x': P[3 * k + 1], 'y': [P[3 * k + 2], 1.0 * k]} for k in range(4)], 'alpha': P[12]}
        expect = lambda v: {'parts': [{'r': v(P[3 * k]), 'x': v(P[3 * k + 1]), 'y': [v(P[3 * k + 2]), 1.0 * k]} for k in range(4)], 'alpha': v(P[12])}
        order = list(P[:13])
    elif which == "two-shared-pairs":
        # the parameters of a four-sphere collection in which spheres 0, 2 share one radius prior and spheres 1, 3 another
        from holopy.scattering.scatterer import Sphere as _S, Spheres as _Ss
        tree = _Ss([_S(n=1.5, r=(p0, p1)[k % 2], center=[1.0 * k, 0.0, p2 if k == 3 else 5.0]) for k in range(4)], warn=False).parameters
        expect = lambda v: {'%d:%s' % (k, key): val for k in range(4)
                            for key, val in (('n', 1.5), ('r', v((p0, p1)[k % 2])), ('center', [1.0 * k, 0.0, v(p2) if k == 3 else 5.0]))}
        order = [p0, p1, p2]
    else:
        raise ValueError(which)
    return tree, expect, order


def _same(c, got, exp):
    """structural comparison of a rebuilt object with its expected description"""
    if isinstance(exp, tuple) and exp and exp[0] == 'cplx':
        if isinstance(got, Prior):
            return False
        return c.and_(c.eq(c.re(got) if not isinstance(got, (int, float)) else got, exp[1]),
                      c.eq(c.im(got) if not isinstance(got, (int, float)) else 0, exp[2]))
    if isinstance(exp, tuple) and exp and exp[0] == 'xr':
        if not isinstance(got, xr.DataArray):
            return False
        return c.and_(True, *[c.eq(got.sel(illumination=k).item(), val) for k, val in exp[1].items()])
    if isinstance(exp, dict):
        if not isinstance(got, dict) or set(got) != set(exp):
            return False
        return c.and_(True, *[_same(c, got[k], exp[k]) for k in exp])
    if isinstance(exp, list):
        if not isinstance(got, (list, tuple, np.ndarray)) or len(got) != len(exp):
            return False
        return c.and_(True, *[_same(c, g, e) for g, e in zip(got, exp)])
    if isinstance(exp, str) or exp is None:
        return got == exp
    return c.eq(got, exp)


@contract("C11", "map_roundtrip", [MP + "Mapper.convert_to_map", MP + "read_map", MP + "Mapper.iterate_mapping",
                                   MP + "Mapper.map_dictionary", MP + "Mapper.map_xarray", MP + "Mapper.map_transformed_prior",
                                   MP + "Mapper.get_parameter_index", MP + "Mapper.check_for_ties", MP + "Mapper.add_parameter",
                                   MP + "transformed_prior", MP + "make_xarray"],
          bounded="eight parameter-tree shapes (shared, transformed, complex, per-channel, nested, array-valued, wide with 13 parameters, "
                  "two pairs of shared priors in a four-sphere collection); values symbolic")
def map_roundtrip(c):
    """convert_to_map registers one parameter per distinct prior (ties by identity), and read_map puts each value at every
    place its prior was used, applies the transformations and leaves fixed values untouched"""
    which = c.choice("structure", ["shared", "transformed", "complex", "per-channel", "nested", "array", "wide", "two-shared-pairs"])
    P = _priors(13)
    tree, expect, order = _structure(which, P)
    K = len(order)
    mapper = Mapper()
    m = c.call(mapper.convert_to_map, tree)
    pars = mapper.parameters
    # a collection hands out copies of its members' priors (shared priors stay shared): identify a parameter by its (unique) bounds
    same = (lambda q, p: q is p or (type(q) is type(p) and (q.lower_bound, q.upper_bound) == (p.lower_bound, p.upper_bound)))
    c.ensures("one-parameter-per-distinct-prior", len(pars) == K and all(sum(1 for q in pars if same(q, p)) == 1 for p in order)
              and len(set(id(q) for q in pars)) == K)
    c.ensures("names-unique-and-parallel", len(mapper.parameter_names) == K and len(set(mapper.parameter_names)) == K)
    vals = [c.real("v%d" % k, pos=(which == "two-shared-pairs"), sample=(0.2, 3.0)) for k in range(K)]
    by_prior = lambda p: vals[[i for i, q in enumerate(pars) if same(q, p)][0]]
    rebuilt = c.call(read_map, m, vals)
    c.ensures("values-at-their-places", _same(c, rebuilt, expect(by_prior)))
    # reading the map with the priors themselves gives back an equivalent tree: guesses flow through transformations
    guesses = [p.guess for p in pars]
    by_guess = lambda p: guesses[[i for i, q in enumerate(pars) if same(q, p)][0]]
    c.ensures("guesses-at-their-places", _same(c, c.call(read_map, m, guesses), expect(by_guess)))
    c.ensures("input-tree-untouched", all(isinstance(p, Uniform) for p in P))
    if which == "two-shared-pairs":
        # the same through a Model: names unique, name-keyed and list-ordered values give the same scatterer
        from holopy.scattering.scatterer import Sphere as _S, Spheres as _Ss
        from holopy.inference.model import ExactModel
        from contracts.common import AbstractPointTheory
        p0, p1, p2 = order
        sc = _Ss([_S(n=1.5, r=(p0, p1)[k % 2], center=[1.0 * k, 0.0, p2 if k == 3 else 5.0]) for k in range(4)], warn=False)
        model = ExactModel(sc, calc_func=lambda *a, **k: None, theory=AbstractPointTheory(), noise_sd=0.1)
        names = list(model._parameter_names)
        c.ensures("model-names-unique", len(names) == 3 and len(set(names)) == 3 and len(model.parameters) == 3 and len(model.initial_guess) == 3)
        by_name = c.call(model.scatterer_from_parameters, dict(zip(names, vals)))
        by_list = c.call(model.scatterer_from_parameters, list(vals))
        c.ensures("name-keyed-equals-list-ordered", c.and_(*[c.eq(a.r, b.r) for a, b in zip(by_name.scatterers, by_list.scatterers)]))
        mp_ = model._parameters
        val_of = lambda p: vals[[i for i, q in enumerate(mp_) if same(q, p)][0]]
        c.ensures("each-sphere-gets-its-own-priors-value", c.and_(*[c.eq(by_list.scatterers[k].r, val_of((p0, p1)[k % 2])) for k in range(4)]))


@contract("C11", "ties_by_identity", [MP + "Mapper.check_for_ties", MP + "Mapper.get_parameter_index", MP + "Mapper.add_parameter"])
def ties_by_identity(c):
    """equal but distinct priors stay separate parameters; the same prior object used twice is one parameter; names are unique"""
    a, b = Uniform(0, 1), Uniform(0, 1)
    mapper = Mapper()
    m = c.call(mapper.convert_to_map, {'x': a, 'y': b, 'z': a})
    c.ensures("equal-not-identical-stay-separate", len(mapper.parameters) == 2 and mapper.parameters[0] is a and mapper.parameters[1] is b)
    c.ensures("same-object-shares-index", m[1][0][0][1] == m[1][0][2][1] != m[1][0][1][1])
    named = Uniform(0, 1, name='shared')
    mapper2 = Mapper()
    c.call(mapper2.convert_to_map, {'x': named, 'y': Uniform(0, 1, name='shared'), 'z': named, 'w': Uniform(0, 2, name='shared')})
    c.ensures("duplicate-names-are-suffixed", mapper2.parameter_names == ['shared', 'shared_0', 'shared_1'])
    mapper3 = Mapper()
    c.call(mapper3.convert_to_map, [Uniform(0, 1), Uniform(0, 1)], 'r')
    c.call(mapper3.convert_to_map, {'r.0': Uniform(0, 1)})
    c.ensures("names-stay-unique-across-calls", len(set(mapper3.parameter_names)) == 3 == len(mapper3.parameters))
    v = [c.real("v0"), c.real("v1")]
    back = c.call(read_map, m, v)
    c.ensures("read-back", c.and_(c.eq(back['x'], v[0]), c.eq(back['y'], v[1]), c.eq(back['z'], v[0])))


@contract("C11", "tie_renumbering", [MP + "edit_map_indices", MO + "Model.add_tie"],
          bounded="2-7 parameters, every tie set of size 2-5 (the property's own bound) exhaustively, the tied names listed in every order "
                  "(ties of 2-3) or in four orders (ties of 4-5)",
          no_crosscheck=True)
def tie_renumbering(c):
    """tying equal parameters removes exactly the duplicates: after add_tie every place that used parameter j uses the tied
    representative (if j was tied) or the same prior object as before, the names stay parallel and unique"""
    ok_map, ok_names, ok_len, ok_untouched, cases = True, True, True, True, 0
    for n in range(2, 8):
        for m in range(2, min(5, n) + 1):
            for tie in itertools.combinations(range(n), m):
                # the tied names may be LISTED in any order: all orders for ties of 2-3, the reversed and a rotated order beyond
                listings = list(itertools.permutations(tie)) if m <= 3 else [tie, tie[::-1], tie[1:] + tie[:1], (tie[-1],) + tie[:-1]]
                for listing in listings:
                    pri = [Uniform(0.1, 1.0) for _ in range(n)]
                    sph = Spheres([Sphere(n=1.5, r=pri[k], center=(3.0 * k, 0, 5.0)) for k in range(n)], warn=False)
                    model = ExactModel(sph, calc_func=None, theory=AbstractPointTheory(), noise_sd=0.1)
                    names = list(model._parameter_names)
                    old = list(model._parameters)
                    old_map = model._maps['scatterer']
                    model.add_tie([names[k] for k in listing])
                    new = model._parameters
                    cases += 1
                    ok_len = ok_len and len(new) == n - m + 1 == len(model._parameter_names) == len(set(model._parameter_names))
                    where_new = read_map(model._maps['scatterer'], list(range(len(new))))
                    where_old = read_map(old_map, list(range(n)))
                    flat_new = [v for v in _leaves(where_new) if isinstance(v, int) and not isinstance(v, bool)]
                    flat_old = [v for v in _leaves(where_old) if isinstance(v, int) and not isinstance(v, bool)]
                    ok_map = ok_map and len(flat_new) == len(flat_old)
                    for jn, jo in zip(flat_new, flat_old):
                        target = old[tie[0]] if jo in tie else old[jo]
                        ok_map = ok_map and jn < len(new) and new[jn] is target
                    kept = [nm for k, nm in enumerate(names) if k not in tie[1:]]
                    ok_names = ok_names and model._parameter_names == kept
                    ok_untouched = ok_untouched and model._maps['optics'] == edit_map_indices(model._maps['optics'], list(tie))
    c.ensures("enumerated-cases", cases == sum(len(list(itertools.combinations(range(n), m))) * (math.factorial(m) if m <= 3 else 4)
                                               for n in range(2, 8) for m in range(2, min(5, n) + 1)))
    c.ensures("every-place-keeps-its-prior-or-the-representative", ok_map)
    c.ensures("names-parallel-unique-and-kept", c.and_(ok_len, ok_names))
    c.ensures("maps-without-placeholders-unchanged", ok_untouched)


def _leaves(t):
    if isinstance(t, dict):
        for k in sorted(t):
            yield from _leaves(t[k])
    elif isinstance(t, (list, tuple)):
        for v in t:
            yield from _leaves(v)
    else:
        yield t


@contract("C11", "tie_rejections", [MO + "Model.add_tie"])
def tie_rejections(c):
    """add_tie refuses unknown names and unequal priors, and keeps the tied name or the requested new name"""
    a, b, d = Uniform(0.1, 1.0), Uniform(0.1, 1.0), Uniform(0.2, 1.0)
    sph = Spheres([Sphere(n=1.5, r=a, center=(0, 0, 5.)), Sphere(n=1.5, r=b, center=(3, 0, 5.)), Sphere(n=1.5, r=d, center=(6, 0, 5.))],
                  warn=False)

    def fresh():
        return ExactModel(sph, calc_func=None, theory=AbstractPointTheory(), noise_sd=0.1)
    m = fresh()
    c.ensures("names", m._parameter_names == ['0:r', '1:r', '2:r'])
    c.ensures("unknown-name-refused", c.outcome(m.add_tie, ['0:r', 'nonsense']).raised(ValueError))
    c.ensures("unequal-priors-refused", c.outcome(fresh().add_tie, ['0:r', '2:r']).raised(ValueError))
    m2 = fresh()
    c.call(m2.add_tie, ['0:r', '1:r'], new_name='radius')
    c.ensures("new-name", m2._parameter_names == ['radius', '2:r'] and m2._parameters[0] == a and m2._parameters[1] == d)
    v = [c.real("v_r", nonneg=True, sample=(0.1, 1.0)), c.real("v_r2", nonneg=True, sample=(0.2, 1.0))]
    s = c.call(m2.scatterer_from_parameters, v)
    c.ensures("tied-value-at-both-places", c.and_(c.eq(s.scatterers[0].r, v[0]), c.eq(s.scatterers[1].r, v[0]), c.eq(s.scatterers[2].r, v[1])))


@contract("C11", "model_parameters", [MO + "Model.__init__", MO + "Model.parameters", MO + "Model.initial_guess",
                                      MO + "Model.scatterer_from_parameters", MO + "Model.theory_from_parameters",
                                      MO + "Model.ensure_parameters_are_listlike", MO + "Model._create_dummy_scatterer",
                                      MO + "Model.initial_guess_scatterer", "holopy.scattering.interface:validate_scatterer",
                                      "holopy.scattering.theory.scatteringtheory:ScatteringTheory.from_parameters"])
def model_parameters(c):
    """a model exposes uniquely named parameters, one per distinct prior; name-keyed and list-ordered values build the same
    scatterer and theory; the initial-guess scatterer uses each prior's guess"""
    n_pr, r_pr, x_pr = Uniform(1.2, 2.0, guess=1.5), Gaussian(0.5, 0.1), Uniform(-1, 1)
    lens_pr = Uniform(0.2, 1.2, guess=0.7)
    sph = Sphere(n=n_pr, r=r_pr, center=(x_pr, x_pr + 1, 5.0))
    theory = MieLens(lens_angle=lens_pr)
    model = AlphaModel(sph, alpha=Uniform(0.5, 1.0, name='alpha'), theory=theory, noise_sd=0.1, medium_index=1.33)
    names = model._parameter_names
    c.ensures("names", names == ['n', 'r', 'center.0', 'lens_angle', 'alpha'])
    c.ensures("one-per-distinct-prior", len(model._parameters) == 5 and model._parameters[2] == x_pr
              and len(set(id(p) for p in model._parameters)) == 5)
    vals = {'n': c.real("v_n", sample=(1.2, 2)), 'r': c.real("v_r", nonneg=True, sample=(0.1, 1)), 'center.0': c.real("v_x", sample=(-1, 1)),
            'lens_angle': c.real("v_lens", sample=(0.2, 1.2)), 'alpha': c.real("v_alpha", sample=(0.5, 1))}
    s_dict = c.call(model.scatterer_from_parameters, vals)
    s_list = c.call(model.scatterer_from_parameters, [vals[k] for k in names])
    c.ensures("values-at-their-places", c.and_(c.eq(s_dict.n, vals['n']), c.eq(s_dict.r, vals['r']), c.eq(s_dict.center[0], vals['center.0']),
                                               c.eq(s_dict.center[1], vals['center.0'] + 1), c.eq(s_dict.center[2], 5.0)))
    c.ensures("dict-and-list-agree", c.and_(c.eq(s_list.n, s_dict.n), c.eq(s_list.r, s_dict.r),
                                            c.eq(np.array(s_list.center, dtype=object), np.array(s_dict.center, dtype=object))))
    t_dict = c.call(model.theory_from_parameters, vals)
    c.ensures("theory-parameter", c.and_(isinstance(t_dict, MieLens), c.eq(t_dict.lens_angle, vals['lens_angle']), t_dict is not theory))
    g = model.initial_guess
    c.ensures("initial-guess", c.and_(c.eq(g['n'], 1.5), c.eq(g['r'], 0.5), c.eq(g['center.0'], 0.0), c.eq(g['lens_angle'], 0.7)))
    gs = c.call(lambda: model.initial_guess_scatterer)
    c.ensures("initial-guess-scatterer", c.and_(c.eq(gs.n, 1.5), c.eq(gs.r, 0.5), c.eq(gs.center[0], 0.0), c.eq(gs.center[1], 1.0)))
    vs = c.call(validate_scatterer, sph)
    c.ensures("validate-scatterer-uses-guesses", c.and_(c.eq(vs.n, 1.5), c.eq(vs.r, 0.5), c.eq(vs.center[0], 0.0), c.eq(vs.center[1], 1.0),
                                                        isinstance(sph.n, Uniform)))


def _scatterers(c):
    R = lambda n, **k: c.real(n, **k)
    cen = lambda p: [R(p + "x", sample=(-2, 2)), R(p + "y", sample=(-2, 2)), R(p + "z", sample=(1, 9))]
    return {
        "sphere": lambda: Sphere(n=R("n", sample=(1.1, 2)), r=R("r", nonneg=True, sample=(0.1, 1)), center=cen("c")),
        "layered": lambda: Sphere(n=[R("n0", sample=(1.1, 2)), R("n1", sample=(1.1, 2))],
                                  r=[R("r0", nonneg=True, sample=(0.1, 1)), R("r1", nonneg=True, sample=(0.1, 1))], center=cen("c")),
        "layered-by-thickness": lambda: LayeredSphere(n=[R("n0", sample=(1.1, 2)), R("n1", sample=(1.1, 2))],
                                                     t=[R("t0", nonneg=True, sample=(0.1, 1)), R("t1", nonneg=True, sample=(0.1, 1))],
                                                     center=cen("c")),
        "ellipsoid": lambda: Ellipsoid(n=R("n", sample=(1.1, 2)), r=[R("a", pos=True, sample=(0.1, 1)), R("b", pos=True, sample=(0.1, 1)),
                                                                     R("cc", pos=True, sample=(0.1, 1))], center=cen("c"),
                                       rotation=[R("al"), R("be"), R("ga")]),
        "spheroid": lambda: Spheroid(n=R("n", sample=(1.1, 2)), r=[R("a", pos=True, sample=(0.1, 1)), R("b", pos=True, sample=(0.1, 1))],
                                     rotation=[R("al"), R("be"), R("ga")], center=cen("c")),
        "cylinder": lambda: Cylinder(n=R("n", sample=(1.1, 2)), h=R("h", pos=True, sample=(0.1, 1)), d=R("d", pos=True, sample=(0.1, 1)),
                                     center=cen("c"), rotation=[R("al"), R("be"), R("ga")]),
        "capsule": lambda: Capsule(n=R("n", sample=(1.1, 2)), h=R("h", pos=True, sample=(0.1, 1)), d=R("d", pos=True, sample=(0.1, 1)),
                                   center=cen("c"), rotation=[R("al"), R("be"), R("ga")]),
        "bisphere": lambda: Bisphere(n=R("n", sample=(1.1, 2)), h=R("h", pos=True, sample=(0.1, 1)), d=R("d", pos=True, sample=(0.1, 1)),
                                     center=cen("c"), rotation=[R("al"), R("be"), R("ga")]),
        "janus": lambda: JanusSphere_Uniform(n=[R("n0", sample=(1.1, 2)), R("n1", sample=(1.1, 2))],
                                             r=[R("r0", nonneg=True, sample=(0.1, 1)), R("r1", nonneg=True, sample=(0.1, 1))],
                                             rotation=[R("al"), R("be"), R("ga")], center=cen("c")),
    }


def _field_eq(c, a, b):
    if isinstance(a, (list, tuple, np.ndarray)) or isinstance(b, (list, tuple, np.ndarray)):
        a, b = np.array(a, dtype=object), np.array(b, dtype=object)
        return a.shape == b.shape and c.eq(a, b)
    return c.eq(a, b)


@contract("C11", "from_parameters_roundtrip", [SC + "scatterer:Scatterer.parameters", SC + "scatterer:Scatterer.from_parameters",
                                               SC + "scatterer:Scatterer._parameters", "holopy.core.holopy_object:HoloPyObject._iteritems"],
          bounded="nine primitive scatterer classes enumerated; all field values symbolic")
def from_parameters_roundtrip(c):
    """a scatterer rebuilt from its own parameter dictionary equals the original field by field, is a new object, and the
    parameter dictionary does not share mutable state with the scatterer"""
    kinds = _scatterers(c)
    which = c.choice("class", sorted(kinds))
    s = kinds[which]()
    p = c.call(lambda: s.parameters)
    new = c.call(s.from_parameters, p)
    c.ensures("same-class-new-object", type(new) is type(s) and new is not s)
    for key in p:
        c.ensures("field-equal", _field_eq(c, getattr(new, key), getattr(s, key)))
    c.ensures("all-constructor-fields-present", set(p) == {k for k in s.__init__.__code__.co_varnames[1:] if getattr(s, k, None) is not None})
    # no shared mutable state: editing the returned dictionary does not reach the scatterer
    before = [np.array(getattr(s, k), dtype=object).copy() for k in sorted(p)]
    for k in p:
        if isinstance(p[k], list):
            p[k][0] = 12345.0
        elif isinstance(p[k], np.ndarray):
            p[k][0] = 12345.0
    c.ensures("parameters-is-a-deep-copy", c.and_(True, *[c.eq(np.array(getattr(s, k), dtype=object), b) for k, b in zip(sorted(p), before)]))
    part = c.call(s.from_parameters, {'n': p['n']})
    c.ensures("missing-keys-taken-from-self", _field_eq(c, part.center, s.center))


@contract("C11", "composite_from_parameters", [SC + "composite:Scatterers._parameters", SC + "composite:Scatterers.from_parameters",
                                               SC + "spherecluster:RigidCluster._parameters", SC + "spherecluster:RigidCluster.from_parameters",
                                               SC + "spherecluster:RigidCluster.scatterers"],
          bounded="two-member collections, one level of nesting",
          patches=[(SC + "spherecluster", "Spheres.overlaps", property(lambda self: []))])
def composite_from_parameters(c):
    """collections flatten their members' parameters as '<i>:<key>' and rebuild equal members from them; a rigid cluster rebuilt
    from its parameters is the equivalent rotated and translated sphere collection"""
    R = lambda n, **k: c.real(n, **k)
    s0 = Sphere(n=R("n0", sample=(1.1, 2)), r=R("r0", nonneg=True, sample=(0.1, 1)), center=[R("x0", sample=(-2, 2)), R("y0", sample=(-2, 2)), R("z0", sample=(1, 9))])
    s1 = Sphere(n=R("n1", sample=(1.1, 2)), r=R("r1", nonneg=True, sample=(0.1, 1)), center=[R("x1", sample=(-2, 2)), R("y1", sample=(-2, 2)), R("z1", sample=(1, 9))])
    kind = c.choice("collection", ["spheres", "scatterers-nested"])
    if kind == "spheres":
        col = Spheres([s0, s1], warn=False)
        members = lambda x: x.scatterers
    else:
        col = Scatterers([s0, Scatterers([s1])])
        members = lambda x: [x.scatterers[0], x.scatterers[1].scatterers[0]]
    p = c.call(lambda: col.parameters)
    c.ensures("flattened-keys", set(p) == ({'0:n', '0:r', '0:center', '1:n', '1:r', '1:center'} if kind == "spheres"
                                           else {'0:n', '0:r', '0:center', '1:0:n', '1:0:r', '1:0:center'}))
    new = c.call(col.from_parameters, p)
    for a, b in zip(members(new), members(col)):
        c.ensures("members-equal", c.and_(c.eq(a.n, b.n), c.eq(a.r, b.r), _field_eq(c, a.center, b.center), a is not b))
    c.ensures("same-class", type(new) is type(col))
    # new values reach their members (also through nested '<i>:<j>:<key>' names)
    fresh = {}
    for key in p:
        if key.endswith(':center'):
            fresh[key] = [R("new_" + key.replace(':', '_') + "_%d" % k_, sample=(-2, 9)) for k_ in range(3)]
        else:
            fresh[key] = R("new_" + key.replace(':', '_'), nonneg=True, sample=(0.1, 2))
    changed = c.call(col.from_parameters, fresh)
    keys_in_order = [[k for k in sorted(p) if k.rsplit(':', 1)[0] == pref] for pref in sorted({k.rsplit(':', 1)[0] for k in p})]
    for memb, keys in zip(members(changed), keys_in_order):
        vals_ = {k.rsplit(':', 1)[1]: fresh[k] for k in keys}
        c.ensures("new-values-reach-their-members", c.and_(c.eq(memb.n, vals_['n']), c.eq(memb.r, vals_['r']),
                                                          _field_eq(c, memb.center, vals_['center'])))
    if kind == "spheres":
        al, be, ga = c.angle("alpha"), c.angle("beta"), c.angle("gamma")
        t = [R("tx", sample=(-2, 2)), R("ty", sample=(-2, 2)), R("tz", sample=(-2, 2))]
        rc = RigidCluster(col, translation=tuple(t), rotation=(al, be, ga))
        rp = c.call(lambda: rc.parameters)
        c.ensures("rigid-cluster-keys", set(rp) == {'0:n', '0:r', '0:center', '1:n', '1:r', '1:center', 'rotation', 'translation'})
        rebuilt = c.call(rc.from_parameters, rp)
        direct = rc.scatterers
        for a, b in zip(rebuilt.scatterers, direct):
            c.ensures("rigid-cluster-equivalent-collection", c.and_(_field_eq(c, a.center, b.center), c.eq(a.r, b.r), c.eq(a.n, b.n)))
        c.ensures("base-spheres-untouched", _field_eq(c, col.scatterers[0].center, s0.center))


@contract("C11", "validate_scatterer_nested_priors", ["holopy.scattering.interface:validate_scatterer"],
          bounded="five placements of the priors: top-level only, only inside the centre, only inside layered index / radius lists, "
                  "only inside the members of a cluster, none at all")
def validate_scatterer_nested_priors(c):
    """the scatterer used for a calculation has every prior replaced by its guess wherever the prior sits - at top level, inside the
    centre, inside layered lists, inside the members of a collection - contains no prior any more, keeps every fixed value, and
    leaves the user's scatterer untouched"""
    where = c.choice("priors_sit", ["top level", "inside the centre only", "inside layered lists only", "inside cluster members only", "nowhere"])
    g = [c.real("guess%d" % k, pos=True, sample=(0.2, 0.9)) for k in range(3)]
    P = [Uniform(0.5 * g[k], 2 * g[k], guess=g[k]) for k in range(3)]
    if where == "top level":
        sc = Sphere(n=1.5, r=P[0], center=[1.0, 2.0, 5.0])
        want = lambda v: (c.eq(v.r, g[0]), c.eq(v.n, 1.5), c.eq(np.array(v.center, dtype=object), np.array([1.0, 2.0, 5.0], dtype=object)))
    elif where == "inside the centre only":
        sc = Sphere(n=1.5, r=0.5, center=[P[0], 2.0, P[1]])
        want = lambda v: (c.eq(v.center[0], g[0]), c.eq(v.center[1], 2.0), c.eq(v.center[2], g[1]), c.eq(v.r, 0.5))
    elif where == "inside layered lists only":
        sc = Sphere(n=[1.5, P[0] + 1], r=[P[1], P[1] + P[2]], center=[1.0, 2.0, 5.0])
        want = lambda v: (c.eq(v.n[0], 1.5), c.eq(v.n[1], g[0] + 1), c.eq(v.r[0], g[1]), c.eq(v.r[1], g[1] + g[2]))
    elif where == "inside cluster members only":
        sc = Spheres([Sphere(n=1.5, r=0.5, center=[P[0], 0.0, 5.0]), Sphere(n=1.6, r=0.4, center=[3.0, P[1], 6.0])], warn=False)
        want = lambda v: (c.eq(v.scatterers[0].center[0], g[0]), c.eq(v.scatterers[1].center[1], g[1]), c.eq(v.scatterers[1].r, 0.4),
                          c.eq(v.scatterers[0].n, 1.5))
    else:
        sc = Sphere(n=1.5, r=0.5, center=[1.0, 2.0, 5.0])
        want = lambda v: (c.eq(v.r, 0.5), c.eq(v.n, 1.5), c.eq(np.array(v.center, dtype=object), np.array([1.0, 2.0, 5.0], dtype=object)))
    before = repr(sc)
    v = c.call(validate_scatterer, sc)

    def priors_in(x):
        if isinstance(x, Prior):
            return True
        if isinstance(x, dict):
            return any(priors_in(y) for y in x.values())
        if isinstance(x, (list, tuple, np.ndarray)):
            return any(priors_in(y) for y in (x.tolist() if isinstance(x, np.ndarray) and x.dtype != object else x))
        return False
    c.ensures("no-prior-left", not priors_in(v.parameters))
    c.ensures("guesses-and-fixed-values-at-their-places", c.and_(*want(v)))
    c.ensures("users-scatterer-untouched", repr(sc) == before)
