"""C19  Coordinate conversions and Euler rotations are mutually consistent."""
import numpy as np

from pyvc.contract import contract
import holopy.core.math as hmath
from holopy.scattering.scatterer import Sphere, Spheres, Scatterers
from holopy.scattering.scatterer.spherecluster import RigidCluster

M = "holopy.core.math:"


def Rz(c, t):
    ct, st = c.cos(t), c.sin(t)
    return np.array([[ct, -st, 0], [st, ct, 0], [0, 0, 1]], dtype=object)


def Ry(c, t):
    ct, st = c.cos(t), c.sin(t)
    return np.array([[ct, 0, st], [0, 1, 0], [-st, 0, ct]], dtype=object)


def det3(R):
    return (R[0, 0] * (R[1, 1] * R[2, 2] - R[1, 2] * R[2, 1])
            - R[0, 1] * (R[1, 0] * R[2, 2] - R[1, 2] * R[2, 0])
            + R[0, 2] * (R[1, 0] * R[2, 1] - R[1, 1] * R[2, 0]))


@contract("C19", "rotation_matrix", [M + "rotation_matrix"])
def rotation_matrix(c):
    """R(alpha,beta,gamma) = Rz(gamma) Ry(beta) Rz(alpha); orthogonal; det +1 (radians)"""
    a, b, g = c.angle("alpha"), c.angle("beta"), c.angle("gamma")
    R = c.call(hmath.rotation_matrix, a, b, g)
    c.ensures("shape", R.shape == (3, 3))
    spec = Rz(c, g).dot(Ry(c, b)).dot(Rz(c, a))
    c.ensures("zyz", c.eq(R, spec))
    c.ensures("orthogonal", c.eq(R.dot(R.T), np.eye(3)))
    c.ensures("det", c.eq(det3(R), 1))
    # canary: one sign flipped in the documented composition must be refutable
    bad = Rz(c, g).dot(Ry(c, -b)).dot(Rz(c, a))
    c.canary("zyz-wrong-sign", c.eq(R, bad))


@contract("C19", "rotation_matrix_degrees", [M + "rotation_matrix"])
def rotation_matrix_degrees(c):
    """degrees: the same composition at angle*pi/180"""
    a, b, g = c.real("alpha"), c.real("beta"), c.real("gamma")
    R = c.call(hmath.rotation_matrix, a, b, g, radians=False)
    k = c.pi / 180.
    spec = Rz(c, g * k).dot(Ry(c, b * k)).dot(Rz(c, a * k))
    c.ensures("zyz-degrees", c.eq(R, spec))
    c.ensures("orthogonal-degrees", c.eq(R.dot(R.T), np.eye(3)))
    c.ensures("det-degrees", c.eq(det3(R), 1))
    c.canary("degrees-as-radians", c.eq(R, Rz(c, g).dot(Ry(c, b)).dot(Rz(c, a))))


@contract("C19", "rotate_points", [M + "rotate_points", M + "rotation_matrix"])
def rotate_points(c):
    """rotate_points applies R to one point or to each row; mutual distances are kept"""
    a, b, g = c.angle("alpha"), c.angle("beta"), c.angle("gamma")
    p, q = c.vec("p"), c.vec("q")
    R = Rz(c, g).dot(Ry(c, b)).dot(Rz(c, a))
    one = c.call(hmath.rotate_points, p, a, b, g)
    c.ensures("single-point", c.eq(one, R.dot(p)))
    both = c.call(hmath.rotate_points, np.array([p, q]), a, b, g)
    c.ensures("rows", c.eq(both, np.array([R.dot(p), R.dot(q)])))
    d0 = ((p - q) ** 2).sum()
    d1 = ((both[0] - both[1]) ** 2).sum()
    c.ensures("distance-preserved", c.eq(d0, d1))
    c.ensures("norm-preserved", c.eq((one ** 2).sum(), (p ** 2).sum()))
    c.canary("moves-points", c.eq(one, p))


def _pt(c, names, **k):
    """one generic point given as three length-1 arrays (the functions are elementwise)"""
    return [np.array([c.real(n, **k)], dtype=object if c.symbolic else float) for n in names.split()]


@contract("C19", "cartesian_to_spherical", [M + "transform_cartesian_to_spherical"])
def cart_to_sph(c):
    """ranges and defining equations of Cartesian -> spherical"""
    x, y, z = _pt(c, "x y z")
    r, th, ph = c.call(hmath.transform_cartesian_to_spherical, [x, y, z])
    r, th, ph, x, y, z = r[0], th[0], ph[0], x[0], y[0], z[0]
    c.ensures("r-nonneg", c.ge(r, 0))
    c.ensures("r-squared", c.eq(r * r, x * x + y * y + z * z))
    c.ensures("theta-range", c.and_(c.ge(th, 0), c.le(th, c.pi)))
    c.ensures("phi-range", c.and_(c.ge(ph, 0), c.lt(ph, 2 * c.pi)))
    c.ensures("x", c.eq(r * c.sin(th) * c.cos(ph), x))
    c.ensures("y", c.eq(r * c.sin(th) * c.sin(ph), y))
    c.ensures("z", c.eq(r * c.cos(th), z))
    c.canary("phi-can-exceed-pi", c.le(ph, c.pi))


@contract("C19", "cartesian_to_cylindrical", [M + "transform_cartesian_to_cylindrical"])
def cart_to_cyl(c):
    x, y = _pt(c, "x y")
    zs = c.real("z")
    scalar_z = c.choice("z_is_scalar", [True, False])
    z = zs if scalar_z else np.array([zs], dtype=object if c.symbolic else float)
    rho, ph, zo = c.call(hmath.transform_cartesian_to_cylindrical, [x, y, z])
    rho, ph, zo, x, y = rho[0], ph[0], zo[0], x[0], y[0]
    c.ensures("rho-nonneg", c.ge(rho, 0))
    c.ensures("rho-squared", c.eq(rho * rho, x * x + y * y))
    c.ensures("phi-range", c.and_(c.ge(ph, 0), c.lt(ph, 2 * c.pi)))
    c.ensures("x", c.eq(rho * c.cos(ph), x))
    c.ensures("y", c.eq(rho * c.sin(ph), y))
    c.ensures("z-kept", c.eq(zo, zs))


@contract("C19", "spherical_to_cartesian", [M + "transform_spherical_to_cartesian"])
def sph_to_cart(c):
    r, th, ph = c.real("r"), c.angle("theta"), c.angle("phi")
    x, y, z = c.call(hmath.transform_spherical_to_cartesian, [r, th, ph])
    c.ensures("x", c.eq(x, r * c.sin(th) * c.cos(ph)))
    c.ensures("y", c.eq(y, r * c.sin(th) * c.sin(ph)))
    c.ensures("z", c.eq(z, r * c.cos(th)))
    c.ensures("distance", c.eq(x * x + y * y + z * z, r * r))


@contract("C19", "cylindrical_to_cartesian", [M + "transform_cylindrical_to_cartesian"])
def cyl_to_cart(c):
    rho, ph = _pt(c, "rho phi")
    zs = c.real("z")
    scalar_z = c.choice("z_is_scalar", [True, False])
    z = zs if scalar_z else np.array([zs], dtype=object if c.symbolic else float)
    x, y, zo = c.call(hmath.transform_cylindrical_to_cartesian, [rho, ph, z])
    c.ensures("x", c.eq(x[0], rho[0] * c.cos(ph[0])))
    c.ensures("y", c.eq(y[0], rho[0] * c.sin(ph[0])))
    c.ensures("z-kept", c.eq(zo[0], zs))
    c.ensures("distance", c.eq(x[0] ** 2 + y[0] ** 2, rho[0] ** 2))


@contract("C19", "cylindrical_spherical", [M + "transform_cylindrical_to_spherical",
                                            M + "transform_spherical_to_cylindrical"])
def cyl_sph(c):
    rho, ph, z = c.real("rho", nonneg=True), c.angle("phi"), c.real("z")
    r, th, ph2 = c.call(hmath.transform_cylindrical_to_spherical, [rho, ph, z])
    c.ensures("r-nonneg", c.ge(r, 0))
    c.ensures("r-squared", c.eq(r * r, rho * rho + z * z))
    c.ensures("theta-range", c.and_(c.ge(th, 0), c.le(th, c.pi)))
    c.ensures("phi-kept", c.eq(ph2, ph))
    c.ensures("rho", c.eq(r * c.sin(th), rho))
    c.ensures("z", c.eq(r * c.cos(th), z))
    # and back
    rho2, ph3, z2 = c.call(hmath.transform_spherical_to_cylindrical, [r, th, ph2])
    c.ensures("roundtrip-cyl-sph-cyl", c.and_(c.eq(rho2, rho), c.eq(ph3, ph), c.eq(z2, z)))
    r0, t0, p0 = c.real("r"), c.angle("theta"), c.angle("phi0")
    rr, pp, zz = c.call(hmath.transform_spherical_to_cylindrical, [r0, t0, p0])
    c.ensures("sph-to-cyl", c.and_(c.eq(rr, r0 * c.sin(t0)), c.eq(pp, p0), c.eq(zz, r0 * c.cos(t0))))
    c.ensures("sph-to-cyl-distance", c.eq(rr * rr + zz * zz, r0 * r0))


@contract("C19", "roundtrip_cart_sph_cart", [M + "transform_cartesian_to_spherical",
                                              M + "transform_spherical_to_cartesian"])
def rt_csc(c):
    """Cartesian -> spherical -> Cartesian is the identity everywhere"""
    x, y, z = _pt(c, "x y z")
    s = c.call(hmath.transform_cartesian_to_spherical, [x, y, z])
    x2, y2, z2 = c.call(hmath.transform_spherical_to_cartesian, s)
    c.ensures("identity", c.and_(c.eq(x2[0], x[0]), c.eq(y2[0], y[0]), c.eq(z2[0], z[0])))


@contract("C19", "roundtrip_cart_cyl_cart", [M + "transform_cartesian_to_cylindrical",
                                              M + "transform_cylindrical_to_cartesian"])
def rt_ccc(c):
    x, y, z = _pt(c, "x y z")
    s = c.call(hmath.transform_cartesian_to_cylindrical, [x, y, z])
    x2, y2, z2 = c.call(hmath.transform_cylindrical_to_cartesian, s)
    c.ensures("identity", c.and_(c.eq(x2[0], x[0]), c.eq(y2[0], y[0]), c.eq(z2[0], z[0])))


@contract("C19", "roundtrip_sph_cart_sph", [M + "transform_cartesian_to_spherical",
                                             M + "transform_spherical_to_cartesian"])
def rt_scs(c):
    """spherical -> Cartesian -> spherical is the identity away from the singularities"""
    r = c.real("r", pos=True)
    th = c.angle("theta", lo=0, hi=c.pi)
    ph = c.angle("phi", lo=0, hi=2 * c.pi)
    c.requires(c.and_(th > 0, th < c.pi, ph < 2 * c.pi))
    if not c.symbolic:
        c.requires(min(th, np.pi - th) > 1e-3 and min(ph, 2 * np.pi - ph) > 1e-6 and 1e-3 < r < 1e3)
    x, y, z = c.call(hmath.transform_spherical_to_cartesian,
                     [np.array([r], dtype=object if c.symbolic else float),
                      np.array([th], dtype=object if c.symbolic else float),
                      np.array([ph], dtype=object if c.symbolic else float)])
    r2, th2, ph2 = c.call(hmath.transform_cartesian_to_spherical, [x, y, z])
    if c.symbolic:
        # sin(theta) > 0 on (0, pi)  [L-TRIG sign lemma, Lean: sin_pos_of_pos_of_lt_pi]
        c.lemma(c.sin(th) > 0)
        # injectivity of (cos, sin) on a half-open turn [L-ATAN2 / Lean: angle_eq_of_cos_sin_eq]
        c.lemma(c.implies(c.and_(c.cos(th2[0]) == c.cos(th), c.sin(th2[0]) == c.sin(th),
                                 th2[0] >= 0, th2[0] <= c.pi), th2[0] == th))
        c.lemma(c.implies(c.and_(c.cos(ph2[0]) == c.cos(ph), c.sin(ph2[0]) == c.sin(ph),
                                 ph2[0] >= 0, ph2[0] < 2 * c.pi), ph2[0] == ph))
    c.ensures("r", c.eq(r2[0], r))
    c.ensures("theta", c.eq(th2[0], th))
    c.ensures("phi", c.eq(ph2[0], ph))


@contract("C19", "roundtrip_cyl_cart_cyl", [M + "transform_cartesian_to_cylindrical",
                                             M + "transform_cylindrical_to_cartesian"])
def rt_cyc(c):
    rho = c.real("rho", pos=True)
    ph = c.angle("phi", lo=0, hi=2 * c.pi)
    z = c.real("z")
    c.requires(ph < 2 * c.pi)
    if not c.symbolic:
        c.requires(min(ph, 2 * np.pi - ph) > 1e-6 and 1e-3 < rho < 1e3)
    A = (lambda v: np.array([v], dtype=object if c.symbolic else float))
    x, y, z1 = c.call(hmath.transform_cylindrical_to_cartesian, [A(rho), A(ph), A(z)])
    rho2, ph2, z2 = c.call(hmath.transform_cartesian_to_cylindrical, [x, y, z1])
    if c.symbolic:
        c.lemma(c.implies(c.and_(c.cos(ph2[0]) == c.cos(ph), c.sin(ph2[0]) == c.sin(ph),
                                 ph2[0] >= 0, ph2[0] < 2 * c.pi), ph2[0] == ph))
    c.ensures("rho", c.eq(rho2[0], rho))
    c.ensures("phi", c.eq(ph2[0], ph))
    c.ensures("z", c.eq(z2[0], z))


@contract("C19", "composition", [M + "transform_cartesian_to_cylindrical",
                                  M + "transform_cylindrical_to_spherical",
                                  M + "transform_cartesian_to_spherical"])
def composition(c):
    """Cartesian -> cylindrical -> spherical equals Cartesian -> spherical"""
    x, y, z = _pt(c, "x y z")
    cyl = c.call(hmath.transform_cartesian_to_cylindrical, [x, y, z])
    via = c.call(hmath.transform_cylindrical_to_spherical, cyl)
    direct = c.call(hmath.transform_cartesian_to_spherical, [x, y, z])
    c.ensures("r", c.eq(via[0][0], direct[0][0]))
    c.ensures("theta", c.eq(via[1][0], direct[1][0]))
    c.ensures("phi", c.eq(via[2][0], direct[2][0]))


@contract("C19", "lookup_table", [M + "find_transformation_function", M + "keep_in_same_coordinates"])
def lut(c):
    """the look-up table returns the right function for each ordered pair"""
    names = ['cartesian', 'spherical', 'cylindrical']
    expect = {
        ('cartesian', 'spherical'): hmath.transform_cartesian_to_spherical,
        ('cartesian', 'cylindrical'): hmath.transform_cartesian_to_cylindrical,
        ('spherical', 'cartesian'): hmath.transform_spherical_to_cartesian,
        ('spherical', 'cylindrical'): hmath.transform_spherical_to_cylindrical,
        ('cylindrical', 'cartesian'): hmath.transform_cylindrical_to_cartesian,
        ('cylindrical', 'spherical'): hmath.transform_cylindrical_to_spherical,
    }
    a = c.choice("from", names)
    b = c.choice("to", names)
    f = c.call(hmath.find_transformation_function, a, b)
    if a == b:
        v = c.vec("v")
        c.ensures("identity-when-same", c.eq(f(v), v))
    else:
        c.ensures("entry", f is expect[(a, b)])
    o = c.outcome(hmath.find_transformation_function, a, 'polar')
    c.ensures("unknown-raises", o.raised(NotImplementedError))


SC = "holopy.scattering.scatterer."


def _cluster(c, m):
    cs = [c.vec("c%d_" % i) for i in range(m)]
    sph = [c.call(Sphere, n=1.5, r=c.real("r%d" % i, nonneg=True), center=cs[i]) for i in range(m)]
    return sph, cs


class _Opaque(list):
    def __bool__(self):
        from pyvc import sym
        return bool(sym.SBool(sym.cur().fresh('overlaps_nonempty', 'bool')))


_STUB = [(SC + "spherecluster", "Spheres.overlaps", property(lambda self: _Opaque()))]


def _rigid(kind, ms, tier='quick'):
    def body(c):
        m = c.choice("members", ms)
        sph, cs = _cluster(c, m)
        cl = c.call(Spheres if kind == 'Spheres' else Scatterers, sph)
        a, b, g = c.angle("alpha"), c.angle("beta"), c.angle("gamma")
        t = c.vec("t")
        R = Rz(c, g).dot(Ry(c, b)).dot(Rz(c, a))
        com = sum(cs) / m
        rot = c.call(cl.rotated, a, b, g)
        new = [np.array(s.center) for s in rot.scatterers]
        for i in range(m):
            c.ensures("rotated-about-centroid", c.eq(new[i], com + R.dot(cs[i] - com)))
        c.ensures("centroid-fixed", c.eq(sum(new) / m, com))
        for i in range(m):
            for j in range(i + 1, m):
                c.ensures("rotation-keeps-distances",
                          c.eq(((new[i] - new[j]) ** 2).sum(), ((cs[i] - cs[j]) ** 2).sum()))
        c.ensures("rotation-leaves-original", c.and_(*[c.eq(np.array(s.center), cs[i]) for i, s in enumerate(cl.scatterers)]))
        tr = c.call(cl.translated, t[0], t[1], t[2])
        moved = [np.array(s.center) for s in tr.scatterers]
        for i in range(m):
            c.ensures("translated-by-vector", c.eq(moved[i], cs[i] + t))
        c.ensures("translation-leaves-original", c.and_(*[c.eq(np.array(s.center), cs[i]) for i, s in enumerate(cl.scatterers)]))
        c.ensures("radii-kept", c.and_(*[c.eq(s.r, o.r) for s, o in zip(rot.scatterers, sph)],
                                       *[c.eq(s.r, o.r) for s, o in zip(tr.scatterers, sph)]))
        if m >= 2:
            c.canary("rotation-about-origin", c.eq(new[0], R.dot(cs[0])))
    body.__doc__ = "rotating / translating a %s moves its members rigidly" % kind
    return body


contract("C19", "composite_rigid_motion", [SC + "composite:Scatterers.rotated", SC + "composite:Scatterers.translated",
                                          SC + "scatterer:Scatterer.translated", SC + "sphere:Sphere.rotated",
                                          M + "rotate_points"],
         bounded="1-3 members enumerated (values symbolic reals); the argument test `ensure_array(coord1) == 3` in translated() is "
                 "assumed false (its outcome is irrelevant: C20/translation explores all its branches)", patches=_STUB,
         skip_eq_literals=(3,))(_rigid('Spheres', [1, 2, 3]))
contract("C19", "composite_rigid_motion_4to6", [SC + "composite:Scatterers.rotated", SC + "composite:Scatterers.translated"],
         bounded="4-6 members enumerated (the property's range is 1-6)", patches=_STUB, tier='thorough',
         timeout_ms=120000, skip_eq_literals=(3,))(_rigid('Spheres', [4, 5, 6]))


def _nested(sizes):
    def body(c):
        n = sum(sizes)
        sph, cs = _cluster(c, n)
        inner, k = [], 0
        for m in sizes:
            inner.append(c.call(Spheres, sph[k:k + m]))
            k += m
        outer = c.call(Scatterers, inner)
        a, b, g = c.angle("alpha"), c.angle("beta"), c.angle("gamma")
        R = Rz(c, g).dot(Ry(c, b)).dot(Rz(c, a))
        cents, k = [], 0
        for m in sizes:
            cents.append(sum(cs[k:k + m]) / m)
            k += m
        com = sum(cents) / len(sizes)
        rot = c.call(outer.rotated, a, b, g)
        new = [np.array(s.center) for sub in rot.scatterers for s in sub.scatterers]
        for i in range(n):
            c.ensures("member-rotated-about-common-centre", c.eq(new[i], com + R.dot(cs[i] - com)))
        c.ensures("original-untouched", c.and_(*[c.eq(np.array(s.center), cs[i]) for i, s in enumerate(sph)]))
    body.__doc__ = ("rotating a composite of composites (sub-cluster sizes %s) moves every primitive member rigidly: "
                    "p -> com + R (p - com), com = mean of the sub-cluster centres" % (sizes,))
    return body


contract("C19", "nested_composite_rotation", [SC + "composite:Scatterers.rotated", SC + "composite:Scatterers.translated"],
         bounded="a composite of two two-sphere clusters; translated()'s argument test assumed false (see composite_rigid_motion)",
         patches=_STUB, timeout_ms=60000, max_paths=200, skip_eq_literals=(3,))(_nested((2, 2)))
contract("C19", "nested_composite_rotation_dimer", [SC + "composite:Scatterers.rotated"],
         bounded="a composite of a one-sphere and a two-sphere cluster, all 512 branch combinations of translated()'s argument test",
         patches=_STUB, timeout_ms=60000, max_paths=1200, tier='thorough')(_nested((1, 2)))


@contract("C19", "rigid_cluster", [SC + "spherecluster:RigidCluster.scatterers", SC + "spherecluster:RigidCluster.__init__",
                                   SC + "spherecluster:RigidCluster.from_parameters"],
          bounded="2 members (composition of the two proved motions)", patches=_STUB, skip_eq_literals=(3,))
def rigid_cluster(c):
    """RigidCluster's members are the base spheres rotated about their centroid, then translated"""
    sph, cs = _cluster(c, 2)
    base = c.call(Spheres, sph)
    a, b, g = c.angle("alpha"), c.angle("beta"), c.angle("gamma")
    t = c.vec("t")
    rc = c.call(RigidCluster, base, translation=tuple(t), rotation=(a, b, g))
    R = Rz(c, g).dot(Ry(c, b)).dot(Rz(c, a))
    com = sum(cs) / 2
    got = [np.array(s.center) for s in rc.scatterers]
    for i in range(2):
        c.ensures("rotate-then-translate", c.eq(got[i], com + R.dot(cs[i] - com) + t))
    c.ensures("base-untouched", c.and_(*[c.eq(np.array(s.center), cs[i]) for i, s in enumerate(base.scatterers)]))


META = {
    'out_of_reach': ["behaviour at very large magnitudes in floating point (the proof is over the reals)"],
    'assumptions': ["the transform_* functions are elementwise, so one generic point (length-1 arrays) stands for every point",
                    "lemma instances used by the two inverse round trips: sin(theta) > 0 on (0, pi) and injectivity of "
                    "(cos, sin) on a half-open turn (lean/HolopyLemmas.lean: sin_pos_of_pos_of_lt_pi, angle_eq_of_cos_sin_eq)"],
}


@contract("C19", "conversions_special_floats", [M + "transform_cartesian_to_spherical", M + "transform_cartesian_to_cylindrical",
                                                M + "transform_cylindrical_to_spherical", M + "transform_spherical_to_cylindrical"], native_only=True,
          bounded="native runs: every combination (11^3 points) of signed zeros, +-1, tiny and huge magnitudes and ordinary values per run "
                  "(IEEE special cases that mathematical reals cannot represent)")
def conversions_special_floats(c):
    """in floating point too: r, rho >= 0, polar angle in [0, pi], azimuth in [0, 2 pi] for every point - including points on the axes
    and half-planes written with a negative zero - and +0.0 / -0.0 spellings of the same point get the same coordinates"""
    import holopy.core.math as hm
    import itertools
    pool = [0.0, -0.0, 1.0, -1.0, 1e-300, -1e-300, 1e150, -1e150, 0.5, -2.5, c.real("ordinary_value", sample=(-5, 5))]
    p = np.array(list(itertools.product(pool, repeat=3)), dtype=float).T               # every combination: 1331 points per run
    with np.errstate(all='ignore'):
        sph = hm.transform_cartesian_to_spherical(p)
        cyl = hm.transform_cartesian_to_cylindrical(p)
        sph2 = hm.transform_cylindrical_to_spherical(cyl)
        q = np.where(p == 0, np.abs(p), p)                     # the same points with every zero written +0.0
        sph_q, cyl_q = hm.transform_cartesian_to_spherical(q), hm.transform_cartesian_to_cylindrical(q)
    two_pi = 2 * np.pi
    fin = np.all(np.isfinite(sph), axis=0) & np.all(np.isfinite(cyl), axis=0)          # (1e150)^2 overflows: not the subject here
    sph, cyl, sph2, sph_q, cyl_q, p = sph[:, fin], cyl[:, fin], sph2[:, fin], sph_q[:, fin], cyl_q[:, fin], p[:, fin]

    def first_bad(ok):
        bad = np.flatnonzero(~ok)
        return None if len(bad) == 0 else "point %r -> spherical %r, cylindrical %r" % (p[:, bad[0]].tolist(), sph[:, bad[0]].tolist(), cyl[:, bad[0]].tolist())
    ok = (sph[0] >= 0) & (sph[1] >= 0) & (sph[1] <= np.pi) & (sph[2] >= 0) & (sph[2] <= two_pi)
    c.ensures("spherical-ranges", bool(ok.all()), detail=first_bad(ok))
    ok = (cyl[0] >= 0) & (cyl[1] >= 0) & (cyl[1] <= two_pi)
    c.ensures("cylindrical-ranges", bool(ok.all()), detail=first_bad(ok))
    ok = (sph2[0] >= 0) & (sph2[1] >= 0) & (sph2[1] <= np.pi) & (sph2[2] >= 0) & (sph2[2] <= two_pi)
    c.ensures("composed-conversion-ranges", bool(ok.all()), detail=first_bad(ok))
    dang = (lambda a, b: np.minimum(np.abs(a - b), np.abs(np.abs(a - b) - two_pi)))
    # (the azimuth of a point on the z axis and the polar angle of the origin are arbitrary: only their ranges are required there)
    off_axis, off_origin = cyl[0] > 0, sph[0] > 0
    ok = ((dang(sph[2], sph_q[2]) < 1e-12) & (dang(cyl[1], cyl_q[1]) < 1e-12) | ~off_axis) & ((np.abs(sph[1] - sph_q[1]) < 1e-12) | ~off_origin)
    c.ensures("signed-zero-spelling-irrelevant", bool(ok.all()), detail=first_bad(ok))


@contract("C19", "conversions_near_axes", [M + "transform_cartesian_to_spherical", M + "transform_spherical_to_cartesian",
                                           M + "transform_cartesian_to_cylindrical", M + "transform_cylindrical_to_spherical"], native_only=True,
          bounded="native runs: 600 points per run within 1e-3 ... 1e-9 rad of the polar axis or of the equatorial plane, at length scales "
                  "1e-6 ... 1e8 (floating-point conditioning near coordinate singularities, which mathematical reals cannot show)")
def conversions_near_axes(c):
    """in floating point too, points close to (not on) the polar axis or the equatorial plane survive Cartesian -> spherical ->
    Cartesian component by component, and Cartesian -> cylindrical -> spherical gives the polar angle of Cartesian -> spherical"""
    import holopy.core.math as hm
    rng = np.random.RandomState(c.int("seed", 0, 10 ** 6))
    n = 600
    scale = 10.0 ** rng.uniform(-6, 8, size=n)
    eps = 10.0 ** rng.uniform(-9, -3, size=n)
    az = rng.uniform(0.05, 2 * np.pi - 0.05, size=n)
    az = np.where(np.abs(np.cos(az)) < 0.05, az + 0.1, az)
    az = np.where(np.abs(np.sin(az)) < 0.05, az + 0.1, az)          # keep x and y both away from zero (their relative error is judged)
    near_pole = rng.rand(n) < 0.6
    sign = np.where(rng.rand(n) < 0.5, 1.0, -1.0)
    rho = np.where(near_pole, eps, 1.0) * scale
    z = np.where(near_pole, 1.0, eps) * scale * sign
    p = np.array([rho * np.cos(az), rho * np.sin(az), z])
    sph = hm.transform_cartesian_to_spherical(p)
    back = hm.transform_spherical_to_cartesian(sph)
    # a polar angle next to pi or pi/2 is only representable to ulp(pi) = 4.4e-16 absolutely, i.e. to 4.4e-16/eps relative to its
    # distance from the singular value (next to 0 floats are dense): that much is inherent to the representation, not to the code
    north = near_pole & (sign > 0)
    tol = 1e-9 + np.where(north, 0.0, 4e-15 / eps)
    rel = np.abs(back - p) / np.abs(p) / tol
    worst = np.unravel_index(np.argmax(rel), rel.shape)
    c.ensures("round-trip-componentwise", bool(rel.max() < 1),
              detail="point %r -> spherical %r -> %r (relative error %.3g in component %d, tolerance %.3g)"
                     % (p[:, worst[1]].tolist(), sph[:, worst[1]].tolist(), back[:, worst[1]].tolist(), rel.max() * tol[worst[1]], worst[0], tol[worst[1]]))
    sph2 = hm.transform_cylindrical_to_spherical(hm.transform_cartesian_to_cylindrical(p))
    dth = np.abs(sph2[1] - sph[1]) / np.where(near_pole, eps, 1.0) / tol
    w = int(np.argmax(dth))
    c.ensures("composition-polar-angle", bool(dth.max() < 1),
              detail="point %r: theta %r directly, %r through cylindrical coordinates" % (p[:, w].tolist(), float(sph[1, w]), float(sph2[1, w])))
    c.ensures("radius-kept", bool(np.all(np.abs(sph[0] - np.sqrt((p ** 2).sum(axis=0))) <= 1e-12 * sph[0])))
