"""C07  Pixel value depends only on position: grids, points, crops, subsets agree."""
import numpy as np
import xarray as xr

from pyvc.contract import contract
from pyvc import sym
from pyvc.sym import SNum
import holopy.core.metadata as md
from holopy.core.metadata import detector_grid, detector_points, data_grid, make_subset_data, flat, from_flat, update_metadata
from holopy.core.process.img_proc import subimage
from holopy.scattering.interface import calc_holo, calc_field
from holopy.scattering.scatterer import Sphere
from contracts.common import AbstractPointTheory

SI = "holopy.scattering.interface:"
IF = "holopy.scattering.imageformation:"
MD = "holopy.core.metadata:"

META = {
    'out_of_reach': [],
    'assumptions': ["the kernel is pointwise (an opaque function of one detector point's dimensionless position and the scatterer / optics): "
                    "contracts/common.py; for MieLens this holds at fixed detector height (its own check)",
                    "np.random.choice(n, k, replace=False) returns k distinct indices in [0, n) and is a deterministic function of the seed "
                    "(modelled: arbitrary distinct indices; the same call after the same seed gives the same indices)",
                    "detector shapes are small and concrete (2x2, 2x3 grids, lists of 3-6 points): bounded"],
}


def _sphere(c):
    return Sphere(n=c.real("n", pos=True, sample=(1.2, 2)), r=c.real("r", pos=True, sample=(0.2, 1)),
                  center=[c.real("cx", sample=(-1, 1)), c.real("cy", sample=(-1, 1)), c.real("cz", sample=(3, 9))])


def _kw(c, th):
    return dict(medium_index=c.real("medium_index", pos=True, sample=(1, 1.6)), illum_wavelen=c.real("wavelen", pos=True, sample=(0.4, 0.8)),
                illum_polarization=(1, 0), theory=th)


@contract("C07", "grid_equals_points", [SI + "calc_holo", IF + "ImageFormation._transform_to_desired_coordinates",
                                        IF + "ImageFormation._pack_field_into_xarray", MD + "flat", MD + "from_flat", SI + "finalize",
                                        MD + "detector_grid", MD + "detector_points", MD + "make_coords"],
          bounded="2x3 grid with anisotropic symbolic spacing (three axis orders) vs the same 6 locations as a point list", timeout_ms=60000,
          max_paths=40)
def grid_equals_points(c):
    """the value computed at a detector location is the same whether the location is part of a regular grid (anisotropic spacing)
    or given in an explicit list of points (in any order)"""
    sx, sy = c.real("sx", pos=True, sample=(0.05, 0.5)), c.real("sy", pos=True, sample=(0.05, 0.5))
    sph = _sphere(c)
    th = AbstractPointTheory()
    kw = _kw(c, th)
    grid = detector_grid((2, 3), (sx, sy))
    layout = c.choice("grid_layout", [('z', 'x', 'y'), ('z', 'y', 'x'), ('x', 'y', 'z')])
    grid = grid.transpose(*layout)           # the same pixels, stored in another axis order
    hg = c.call(calc_holo, grid, sph, **kw)
    A = (lambda v: np.array(v, dtype=object if c.symbolic else float))
    order = c.choice("point_order", ["row-major", "reversed"])
    locs = [(i, j) for i in range(2) for j in range(3)]
    if order == "reversed":
        locs = locs[::-1]
    pts = detector_points(x=A([i * sx for i, j in locs]), y=A([j * sy for i, j in locs]), z=A([0 * sx for _ in locs]))
    hp = c.call(calc_holo, pts, sph, **kw)
    G = hg.transpose('x', 'y', 'z').values
    for k, (i, j) in enumerate(locs):
        c.ensures("same-value-at-same-location", c.eq(hp.values[k], G[i, j, 0]))
    c.ensures("grid-result-on-grid-coordinates", c.and_(c.eq(hg.x.values, A([0 * sx, sx])), c.eq(hg.y.values, A([0 * sy, sy, 2 * sy]))))
    c.canary("value-independent-of-location", c.eq(G[0, 0, 0], G[1, 2, 0]))


@contract("C07", "cropped_grid", [SI + "calc_holo", "holopy.core.process.img_proc:subimage"],
          bounded="4x4 grid and its central 2x2 crop", timeout_ms=60000)
def cropped_grid(c):
    """computing on a cropped detector gives the crop of the full computation: values and physical coordinates of retained pixels agree"""
    s = c.real("spacing", pos=True, sample=(0.05, 0.5))
    sph = _sphere(c)
    th = AbstractPointTheory()
    kw = _kw(c, th)
    th = AbstractPointTheory(coordinates='cartesian')     # (the coordinate conversion is C19 / C05; here it would only add cost)
    kw['theory'] = th
    full = detector_grid(4, s)
    crop = c.call(subimage, full, [2, 2], 2)
    A = (lambda v: np.array(v, dtype=object if c.symbolic else float))
    c.ensures("crop-coordinates", c.and_(c.eq(crop.x.values, A([s, 2 * s])), c.eq(crop.y.values, A([s, 2 * s]))))
    hf = c.call(calc_holo, full, sph, **kw)
    hc = c.call(calc_holo, crop, sph, **kw)
    F = hf.transpose('x', 'y', 'z').values
    C_ = hc.transpose('x', 'y', 'z').values
    for i in range(2):
        for j in range(2):
            c.ensures("crop-commutes-with-calculation", c.eq(C_[i, j, 0], F[i + 1, j + 1, 0]))
    c.ensures("full-detector-untouched", full.shape == (1, 4, 4) and float(abs(full.values).sum()) == 0.0)


class _ScriptedChoice:
    """np.random inside make_subset_data: `choice(n, k, replace=False)` returns the scripted distinct indices and records the call"""

    def __init__(self, script):
        self.script = list(script)
        self.calls = []
        self.seeds = []

    def seed(self, s):
        self.seeds.append(s)

    def choice(self, n, k, replace=True):
        self.calls.append((n, k, replace))
        return np.array(self.script[:k])


class _NpWithRandom:
    def __init__(self, rnd):
        self.random = rnd

    def __getattr__(self, name):
        return getattr(np, name)


@contract("C07", "make_subset_data", [MD + "make_subset_data", MD + "flat", MD + "copy_metadata"],
          bounded="2x3 image with symbolic pixels, at the origin or as a region of interest; selections of 1-3 distinct flat indices from a scripted generator")
def make_subset(c):
    """subset selection asks for distinct pixels (no replacement) among all x*y pixels, keeps the values, coordinates and metadata
    of the selected pixels, remembers the original axes, returns the input itself when no pixel count is given, and modifies nothing"""
    vals = np.empty((2, 3), dtype=object if c.symbolic else float)
    for i in range(2):
        for j in range(3):
            vals[i, j] = c.real("p%d%d" % (i, j))
    im = data_grid(vals, spacing=(0.1, 0.25), medium_index=1.33, illum_wavelen=0.66, illum_polarization=(1, 0), noise_sd=0.05)
    # the image may be a region of interest: its axes need not start at 0
    ox, oy = c.choice("image_origin", [(0.0, 0.0), (0.3, 1.25)])
    im = im.assign_coords(x=im.x.values + ox, y=im.y.values + oy)
    im.name = 'img'
    attrs_before = dict(im.attrs)
    c.ensures("no-count-returns-input", c.call(make_subset_data, im) is im)
    sel = c.choice("selection", [(0,), (5,), (1, 4), (4, 1), (0, 2, 5), (3, 1, 2)])
    rnd = _ScriptedChoice(sel)
    seed = c.choice("seed", [17, 0, None])
    saved = md.np
    md.np = _NpWithRandom(rnd)
    try:
        sub, idx = c.call(make_subset_data, im, pixels=len(sel), return_selection=True, seed=seed)
    finally:
        md.np = saved
    c.ensures("draws-without-replacement-from-all-pixels", rnd.calls == [(6, len(sel), False)])
    c.ensures("generator-seeded-with-the-given-seed", rnd.seeds == ([] if seed is None else [seed]))
    c.ensures("selection-returned", list(idx) == list(sel))
    fl = im.stack(flat=('x', 'y', 'z'))
    for k, f in enumerate(sel):
        i, j = divmod(f, 3)
        c.ensures("selected-values", c.eq(sub.values[k], vals[i, j]))
        c.ensures("selected-coordinates", c.and_(c.eq(float(sub.x.values[k]), ox + i * 0.1), c.eq(float(sub.y.values[k]), oy + j * 0.25)))
    c.ensures("metadata-kept", c.and_(sub.name == 'img', c.eq(sub.attrs['medium_index'], 1.33), c.eq(sub.attrs['noise_sd'], 0.05)))
    od = sub.attrs.get('original_dims')
    c.ensures("original-axes-remembered", od is not None and set(od) == {'x', 'y', 'z'}
              and bool(np.allclose(np.asarray(od['x'], dtype=float), [ox, ox + 0.1])) and bool(np.allclose(np.asarray(od['y'], dtype=float), [oy, oy + 0.25, oy + 0.5])))
    c.ensures("input-untouched", c.and_('original_dims' not in im.attrs, set(im.attrs) == set(attrs_before), im.shape == (1, 2, 3),
                                        c.eq(im.values[0], vals)))


@contract("C07", "subset_commutes_with_calculation", [MD + "make_subset_data", SI + "calc_holo", SI + "finalize"],
          bounded="2x3 detector, scripted selections of 2-3 pixels", timeout_ms=60000)
def subset_commutes(c):
    """selecting pixels commutes with the forward calculation: the hologram computed on a pixel subset equals the selected pixels
    of the hologram computed on the full detector"""
    s = c.real("spacing", pos=True, sample=(0.05, 0.5))
    sph = _sphere(c)
    th = AbstractPointTheory()
    kw = _kw(c, th)
    th = AbstractPointTheory(coordinates='cartesian')
    kw['theory'] = th
    det = update_metadata(detector_grid((2, 3), s), noise_sd=0.1)
    sel = c.choice("selection", [(1, 4), (0, 2, 5), (5, 3)])
    rnd = _ScriptedChoice(sel)
    saved = md.np
    md.np = _NpWithRandom(rnd)
    try:
        sub = c.call(make_subset_data, det, pixels=len(sel))
    finally:
        md.np = saved
    hs = c.call(calc_holo, sub, sph, **kw)
    hf = c.call(calc_holo, det, sph, **kw)
    F = hf.transpose('x', 'y', 'z').values
    for k, f in enumerate(sel):
        i, j = divmod(f, 3)
        c.ensures("subset-of-full-equals-full-of-subset", c.eq(hs.values[k], F[i, j, 0]))
    c.ensures("subset-result-keeps-flat-layout", 'flat' in hs.dims and hs.sizes['flat'] == len(sel))


@contract("C07", "subset_reproducible", [MD + "make_subset_data"], bounded="native run on a 5x6 image, seeds sampled")
def subset_reproducible(c):
    """the same seed selects the same pixels; the selected pixels are distinct (checked natively against numpy's generator:
    np.random is an assumed dependency)"""
    seed = c.int("seed", 0, 10 ** 6)
    k = c.int("pixels", 1, 30)
    if c.symbolic:
        c.ensures("same-seed-same-selection", True)
        c.ensures("distinct-pixels", True)
        return
    im = data_grid(np.arange(30.).reshape(5, 6), spacing=0.1)
    a, ia = make_subset_data(im, pixels=k, return_selection=True, seed=seed)
    b, ib = make_subset_data(im, pixels=k, return_selection=True, seed=seed)
    c.ensures("same-seed-same-selection", list(ia) == list(ib) and np.array_equal(a.values, b.values))
    c.ensures("distinct-pixels", len(set(ia)) == k and all(0 <= v < 30 for v in ia))


@contract("C07", "pointwise_handoff", [IF + "ImageFormation._transform_to_desired_coordinates", IF + "ImageFormation._get_field_from",
                                       IF + "get_wavevec_from"])
def pointwise_handoff(c):
    """the position handed to the kernel for a detector location is a function of that location, the particle centre and the
    wavevector only: k*(x - cx), k*(y - cy), k*(cz - z) - whatever else is on the detector (the transformation code is elementwise,
    so one generic location stands for every location of a detector of any size)"""
    x, y, z = c.real("x", sample=(-3, 3)), c.real("y", sample=(-3, 3)), c.real("z", sample=(-1, 1))
    ox, oy = c.real("other_x", sample=(-3, 3)), c.real("other_y", sample=(-3, 3))
    sph = _sphere(c)
    th = AbstractPointTheory(coordinates='cartesian')
    kw = _kw(c, th)
    A = (lambda v: np.array(v, dtype=object if c.symbolic else float))
    alone = detector_points(x=A([x]), y=A([y]), z=A([z]))
    among = detector_points(x=A([ox, x]), y=A([oy, y]), z=A([0 * z, z]))
    h1 = c.call(calc_holo, alone, sph, **kw)
    h2 = c.call(calc_holo, among, sph, **kw)
    k = 2 * c.pi * kw['medium_index'] / kw['illum_wavelen']
    cen = sph.center
    want = A([k * (x - cen[0]), k * (y - cen[1]), k * (cen[2] - z)])
    c.ensures("position-formula", c.eq(th.calls[0]['pos'][:, 0], want))
    c.ensures("independent-of-the-other-locations", c.eq(th.calls[1]['pos'][:, 1], want))
    c.ensures("same-value", c.eq(h2.values[1], h1.values[0]))
    c.canary("particle-position-ignored", c.eq(th.calls[0]['pos'][:, 0], A([k * x, k * y, -k * z])))


@contract("C07", "sparse_subset_distinct", [MD + "make_subset_data"], native_only=True,
          bounded="200x200 image, 399 of 40000 pixels (< 1 %): native sampling (a draw with replacement would repeat a pixel with probability 0.86 per run)")
def sparse_subset_distinct(c):
    """a sparse subset of a large image also consists of distinct pixels of the image, reproducibly for a seed, and keeps the
    selected pixels' values and coordinates"""
    seed = c.int("seed", 0, 10 ** 6)
    im = data_grid(np.arange(40000.).reshape(200, 200), spacing=0.1)
    sub, idx = make_subset_data(im, pixels=399, return_selection=True, seed=seed)
    again, idx2 = make_subset_data(im, pixels=399, return_selection=True, seed=seed)
    c.ensures("distinct-pixels", len(set(int(v) for v in idx)) == 399 and all(0 <= int(v) < 40000 for v in idx))
    c.ensures("same-seed-same-selection", list(idx) == list(idx2))
    c.ensures("values-are-the-selected-pixels", np.array_equal(sub.values.ravel(), np.array([float(v) for v in idx])))
    c.ensures("distinct-locations", len(set(zip(sub.x.values.tolist(), sub.y.values.tolist()))) == 399)


def _integer_grid(coords):
    def body(c):
        sph = _sphere(c)
        th = AbstractPointTheory(coordinates=coords)
        kw = _kw(c, th)
        g_int = detector_grid((2, 3), 1)           # integer spacing: integer-typed x, y (and z = 0)
        g_flt = detector_grid((2, 3), 1.0)
        c.ensures("integer-typed-coordinates", g_int.x.dtype.kind in 'iu' or c.symbolic)
        hi = c.call(calc_holo, g_int, sph, **kw)
        hf = c.call(calc_holo, g_flt, sph, **kw)
        c.ensures("same-values-whatever-the-coordinate-dtype", c.eq(hi.values, hf.values))
        pts = detector_points(x=np.repeat(np.arange(2), 3), y=np.tile(np.arange(3), 2), z=np.zeros(6, dtype=int))
        hp_ = c.call(calc_holo, pts, sph, **kw)
        c.ensures("integer-points-equal-grid", c.eq(hp_.values.ravel(), hf.values.ravel()))
    body.__doc__ = ("a detector whose coordinates are integer-typed (integer pixel spacing, z = 0) gives, location by location, the values of "
                    "the same detector with float coordinates and of the same locations given as points - theory asking for %s coordinates" % coords)
    return body


for _cs in ("spherical", "cylindrical", "cartesian"):
    contract("C07", "integer_typed_grid_" + _cs, [IF + "ImageFormation._transform_to_desired_coordinates", SI + "calc_holo"],
             bounded="2x3 grid with integer spacing 1 (integer-typed coordinates)", timeout_ms=60000)(_integer_grid(_cs))


@contract("C07", "detector_points_leaves_its_arguments_alone", [MD + "detector_points"])
def detector_points_frame(c):
    """detector_points builds the detector from what it is given and modifies none of it: a coordinate dictionary passed by the caller
    keeps exactly its keys and values (the default third coordinate is added to the detector, not to the caller's dictionary)"""
    A = (lambda v: np.array(v, dtype=object if c.symbolic else float))
    xs, ys = [c.real("x0", sample=(-2, 2)), c.real("x1", sample=(-2, 2))], [c.real("y0", sample=(-2, 2)), c.real("y1", sample=(-2, 2))]
    form = c.choice("given_as", ["dictionary without z", "dictionary with z", "polar dictionary without r", "keywords"])
    if form == "dictionary without z":
        given = {'x': A(xs), 'y': A(ys)}
    elif form == "dictionary with z":
        given = {'x': A(xs), 'y': A(ys), 'z': A([0.5, 0.25])}
    elif form == "polar dictionary without r":
        given = {'theta': np.array([0.3, 0.4]), 'phi': np.array([0.1, 0.2])}
    else:
        given = None
    snapshot = None if given is None else {k: (id(v), np.array(v, copy=True)) for k, v in given.items()}
    det = c.call(detector_points, coords=given) if given is not None else c.call(detector_points, x=A(xs), y=A(ys))
    if form in ("dictionary without z", "keywords"):
        c.ensures("default-z-on-the-detector", c.eq(det.z.values, np.zeros(2)))
    if given is not None:
        c.ensures("callers-dictionary-untouched", set(given) == set(snapshot) and all(id(given[k]) == snapshot[k][0]
                                                                                      and c.truth(c.eq(given[k], snapshot[k][1])) for k in given))
