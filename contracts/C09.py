"""C09  Sphere clusters: order independence, symmetry, default-theory rule."""
import contextlib
import numpy as np

from pyvc.contract import contract
from pyvc import sym
import holopy.scattering.interface as si
from holopy.scattering.interface import determine_default_theory_for, interpret_theory, _choose_mie_vs_multisphere
from holopy.scattering.scatterer import Sphere, Spheres, Spheroid, Cylinder, Ellipsoid, Scatterers
from holopy.scattering.theory import Mie, Multisphere, Tmatrix, MieLens
from holopy.scattering.theory.dda import DDA
from holopy.scattering.errors import AutoTheoryFailed, InvalidScatterer
from holopy.core.errors import DependencyMissing

SI = "holopy.scattering.interface:"
STUB = [("holopy.scattering.scatterer.spherecluster", "Spheres.overlaps", property(lambda self: []))]

META = {
    'out_of_reach': ["order independence, rotational covariance and the one-sphere limit of the SCSMFO multi-sphere SOLUTION (values returned "
                     "by the Fortran solver)",
                     "Multisphere._scsmfo_setup's hand-off (centroid-centred, k-scaled, z-flipped coordinates) is not under contract yet"],
    'assumptions': ["theory constructors are exercised as deployed (extension-present flags set), they only store options",
                    "clusters of 1-3 members in the quick tier, 4 in the thorough tier (the property's range is 1-6): bounded"],
}


@contextlib.contextmanager
def deployed():
    """the theory classes as deployed (compiled extensions importable): their constructors succeed"""
    import holopy.scattering.theory.mie as m1
    import holopy.scattering.theory.multisphere as m2
    import holopy.scattering.theory.tmatrix as m3
    saved = (m1._COMPILED_FORTRAN, m2._COMPILED_FORTRAN, m3.COMPILED_TMATRIX_FORTRAN)
    m1._COMPILED_FORTRAN = m2._COMPILED_FORTRAN = m3.COMPILED_TMATRIX_FORTRAN = True
    try:
        yield
    finally:
        m1._COMPILED_FORTRAN, m2._COMPILED_FORTRAN, m3.COMPILED_TMATRIX_FORTRAN = saved


def _cluster_rule(ms, tier):
    def body(c):
        m = c.choice("members", ms)
        cs = [np.array([c.real("c%d_%d" % (i, k), sample=(-40, 40)) for k in range(3)], dtype=object if c.symbolic else float) for i in range(m)]
        rs = [c.real("r%d" % i, pos=True, sample=(0.2, 2)) for i in range(m)]
        sph = Spheres([Sphere(n=1.5, r=rs[i], center=cs[i]) for i in range(m)], warn=False)
        with deployed():
            th = c.call(determine_default_theory_for, sph)
        if m == 1:
            c.ensures("single-member-cluster-gets-mie", type(th) is Mie)
            return
        rmax = c.max(*rs)
        far = False
        for i in range(m):
            for j in range(i + 1, m):
                d = c.sqrt(sum((cs[i][k] - cs[j][k]) ** 2 for k in range(3)))
                far = c.or_(far, d > 30 * rmax)
        c.ensures("multisphere-iff-within-30-largest-radii", c.iff(type(th) is Multisphere, c.not_(far)))
        c.ensures("otherwise-mie-superposition", c.iff(type(th) is Mie, far))
        c.canary("strict-inequality-at-the-boundary", c.iff(type(th) is Multisphere,
                                                            c.sqrt(sum((cs[0][k] - cs[1][k]) ** 2 for k in range(3))) < 30 * rmax) if m == 2 else False)
    body.__doc__ = ("several uniform spheres: multi-sphere theory iff every pair is within 30 largest-radii of one another (boundary "
                    "included), otherwise Mie superposition; a one-sphere cluster gets Lorenz-Mie")
    return body


contract("C09", "cluster_rule", [SI + "_choose_mie_vs_multisphere", SI + "determine_default_theory_for"],
         bounded="clusters of 1, 2 or 3 spheres; centres and radii symbolic", patches=STUB, max_paths=300)(_cluster_rule([1, 2, 3], 'quick'))
contract("C09", "cluster_rule_4", [SI + "_choose_mie_vs_multisphere"], bounded="clusters of 4 spheres", patches=STUB, max_paths=3000,
         tier='thorough')(_cluster_rule([4], 'thorough'))


@contract("C09", "default_theory_rule", [SI + "determine_default_theory_for", SI + "_choose_mie_vs_multisphere", SI + "interpret_theory"],
          patches=STUB)
def default_theory_rule(c):
    """single sphere: Lorenz-Mie; layered members or missing centres: Mie superposition / InvalidScatterer; spheroid or cylinder:
    T-matrix; any other scatterer: discrete dipoles (missing-dependency error when the external solver is absent); a non-scatterer:
    AutoTheoryFailed; and theory='auto' is identical to naming that theory"""
    r = c.real("r", pos=True, sample=(0.2, 2))
    cen = [c.real("cx", sample=(-3, 3)), c.real("cy", sample=(-3, 3)), c.real("cz", sample=(1, 9))]
    with deployed():
        c.ensures("sphere-mie", type(c.call(determine_default_theory_for, Sphere(n=1.5, r=r, center=cen))) is Mie)
        c.ensures("layered-sphere-mie", type(c.call(determine_default_theory_for, Sphere(n=[1.5, 1.4], r=[r, r + 1], center=cen))) is Mie)
        c.ensures("spheroid-tmatrix", type(c.call(determine_default_theory_for, Spheroid(n=1.5, r=(r, r + 1), center=cen))) is Tmatrix)
        c.ensures("cylinder-tmatrix", type(c.call(determine_default_theory_for, Cylinder(n=1.5, d=r, h=r + 1, center=cen))) is Tmatrix)
        other = c.outcome(determine_default_theory_for, Ellipsoid(n=1.5, r=(r, r + 1, r + 2), center=cen))
        c.ensures("other-shape-goes-to-discrete-dipoles", (other.ok and type(other.value) is DDA) or other.raised(DependencyMissing))
        c.ensures("non-scatterer-fails-clearly", c.outcome(determine_default_theory_for, "not a scatterer").raised(AutoTheoryFailed))
        c.ensures("non-scatterer-number-fails-clearly", c.outcome(determine_default_theory_for, 3.0).raised(AutoTheoryFailed))
        near = Spheres([Sphere(n=1.5, r=r, center=cen), Sphere(n=[1.5, 1.4], r=[r, r + 1], center=[cen[0] + 3 * r, cen[1], cen[2]])], warn=False)
        if c.symbolic:
            th = c.call(determine_default_theory_for, near)
            warned = any(e[0] == 'warn' for e in c.events())
        else:
            import warnings
            with warnings.catch_warnings(record=True) as w:
                warnings.simplefilter('always')
                th = c.call(determine_default_theory_for, near)
            warned = len(w) > 0
        c.ensures("layered-member-forces-mie-with-warning", type(th) is Mie and warned)
        nocentre = Spheres([Sphere(n=1.5, r=r, center=cen), Sphere(n=1.5, r=r)], warn=False)
        c.ensures("missing-centre-rejected", c.outcome(determine_default_theory_for, nocentre).raised(InvalidScatterer))
        # interpret_theory
        s = Sphere(n=1.5, r=r, center=cen)
        auto = c.call(interpret_theory, s, 'auto')
        c.ensures("auto-is-the-default-theory", type(auto) is type(determine_default_theory_for(s)))
        c.ensures("default-argument-is-auto", type(c.call(interpret_theory, s)) is Mie)
        inst = MieLens(lens_angle=0.8)
        c.ensures("instance-passed-through", c.call(interpret_theory, s, inst) is inst)
        made = c.call(interpret_theory, s, MieLens)
        c.ensures("class-is-instantiated", isinstance(made, MieLens) and not isinstance(made, type))
        c.ensures("explicit-class-equals-auto-choice", type(c.call(interpret_theory, s, Mie)) is type(auto))
