"""C09  Sphere clusters: order independence, symmetry, default-theory rule."""
import contextlib
import numpy as np

from pyvc.contract import contract
from pyvc import sym
import holopy.scattering.interface as si
from holopy.scattering.interface import determine_default_theory_for, interpret_theory, _choose_mie_vs_multisphere
from holopy.scattering.scatterer import Sphere, Spheres, Spheroid, Cylinder, Ellipsoid, Scatterers
from holopy.scattering.theory import Mie, Multisphere, Tmatrix, MieLens
from holopy.scattering.theory.dda import DDA
from holopy.scattering.errors import AutoTheoryFailed, InvalidScatterer
from holopy.core.errors import DependencyMissing
from holopy.core.metadata import detector_grid

SI = "holopy.scattering.interface:"
STUB = [("holopy.scattering.scatterer.spherecluster", "Spheres.overlaps", property(lambda self: []))]

META = {
    'out_of_reach': ["order independence, rotational covariance and the one-sphere limit of the SCSMFO multi-sphere SOLUTION (values returned "
                     "by the Fortran solver)",
                     "Multisphere._scsmfo_setup's hand-off (centroid-centred, k-scaled, z-flipped coordinates) is not under contract yet"],
    'assumptions': ["theory constructors are exercised as deployed (extension-present flags set), they only store options",
                    "clusters of 1-3 members in the quick tier, 4 in the thorough tier (the property's range is 1-6): bounded"],
}


@contextlib.contextmanager
def deployed():
    """the theory classes as deployed (compiled extensions importable): their constructors succeed"""
    import holopy.scattering.theory.mie as m1
    import holopy.scattering.theory.multisphere as m2
    import holopy.scattering.theory.tmatrix as m3
    saved = (m1._COMPILED_FORTRAN, m2._COMPILED_FORTRAN, m3.COMPILED_TMATRIX_FORTRAN)
    m1._COMPILED_FORTRAN = m2._COMPILED_FORTRAN = m3.COMPILED_TMATRIX_FORTRAN = True
    try:
        yield
    finally:
        m1._COMPILED_FORTRAN, m2._COMPILED_FORTRAN, m3.COMPILED_TMATRIX_FORTRAN = saved


def _cluster_rule(ms, tier):
    def body(c):
        m = c.choice("members", ms)
        cs = [np.array([c.real("c%d_%d" % (i, k), sample=(-40, 40)) for k in range(3)], dtype=object if c.symbolic else float) for i in range(m)]
        rs = [c.real("r%d" % i, pos=True, sample=(0.2, 2)) for i in range(m)]
        sph = Spheres([Sphere(n=1.5, r=rs[i], center=cs[i]) for i in range(m)], warn=False)
        with deployed():
            th = c.call(determine_default_theory_for, sph)
        if m == 1:
            c.ensures("single-member-cluster-gets-mie", type(th) is Mie)
            return
        rmax = c.max(*rs)
        far = False
        for i in range(m):
            for j in range(i + 1, m):
                d = c.sqrt(sum((cs[i][k] - cs[j][k]) ** 2 for k in range(3)))
                far = c.or_(far, d > 30 * rmax)
        c.ensures("multisphere-iff-within-30-largest-radii", c.iff(type(th) is Multisphere, c.not_(far)))
        c.ensures("otherwise-mie-superposition", c.iff(type(th) is Mie, far))
        c.canary("strict-inequality-at-the-boundary", c.iff(type(th) is Multisphere,
                                                            c.sqrt(sum((cs[0][k] - cs[1][k]) ** 2 for k in range(3))) < 30 * rmax) if m == 2 else False)
    body.__doc__ = ("several uniform spheres: multi-sphere theory iff every pair is within 30 largest-radii of one another (boundary "
                    "included), otherwise Mie superposition; a one-sphere cluster gets Lorenz-Mie")
    return body


contract("C09", "cluster_rule", [SI + "_choose_mie_vs_multisphere", SI + "determine_default_theory_for"],
         bounded="clusters of 1, 2 or 3 spheres; centres and radii symbolic", patches=STUB, max_paths=300)(_cluster_rule([1, 2, 3], 'quick'))
contract("C09", "cluster_rule_4", [SI + "_choose_mie_vs_multisphere"], bounded="clusters of 4 spheres", patches=STUB, max_paths=3000,
         tier='thorough')(_cluster_rule([4], 'thorough'))


@contract("C09", "default_theory_rule", [SI + "determine_default_theory_for", SI + "_choose_mie_vs_multisphere", SI + "interpret_theory"],
          patches=STUB)
def default_theory_rule(c):
    """single sphere: Lorenz-Mie; layered members or missing centres: Mie superposition / InvalidScatterer; spheroid or cylinder:
    T-matrix; any other scatterer: discrete dipoles (missing-dependency error when the external solver is absent); a non-scatterer:
    AutoTheoryFailed; and theory='auto' is identical to naming that theory"""
    r = c.real("r", pos=True, sample=(0.2, 2))
    cen = [c.real("cx", sample=(-3, 3)), c.real("cy", sample=(-3, 3)), c.real("cz", sample=(1, 9))]
    with deployed():
        c.ensures("sphere-mie", type(c.call(determine_default_theory_for, Sphere(n=1.5, r=r, center=cen))) is Mie)
        c.ensures("layered-sphere-mie", type(c.call(determine_default_theory_for, Sphere(n=[1.5, 1.4], r=[r, r + 1], center=cen))) is Mie)
        c.ensures("spheroid-tmatrix", type(c.call(determine_default_theory_for, Spheroid(n=1.5, r=(r, r + 1), center=cen))) is Tmatrix)
        c.ensures("cylinder-tmatrix", type(c.call(determine_default_theory_for, Cylinder(n=1.5, d=r, h=r + 1, center=cen))) is Tmatrix)
        other = c.outcome(determine_default_theory_for, Ellipsoid(n=1.5, r=(r, r + 1, r + 2), center=cen))
        c.ensures("other-shape-goes-to-discrete-dipoles", (other.ok and type(other.value) is DDA) or other.raised(DependencyMissing))
        c.ensures("non-scatterer-fails-clearly", c.outcome(determine_default_theory_for, "not a scatterer").raised(AutoTheoryFailed))
        c.ensures("non-scatterer-number-fails-clearly", c.outcome(determine_default_theory_for, 3.0).raised(AutoTheoryFailed))
        near = Spheres([Sphere(n=1.5, r=r, center=cen), Sphere(n=[1.5, 1.4], r=[r, r + 1], center=[cen[0] + 3 * r, cen[1], cen[2]])], warn=False)
        if c.symbolic:
            th = c.call(determine_default_theory_for, near)
            warned = any(e[0] == 'warn' for e in c.events())
        else:
            import warnings
            with warnings.catch_warnings(record=True) as w:
                warnings.simplefilter('always')
                th = c.call(determine_default_theory_for, near)
            warned = len(w) > 0
        c.ensures("layered-member-forces-mie-with-warning", type(th) is Mie and warned)
        nocentre = Spheres([Sphere(n=1.5, r=r, center=cen), Sphere(n=1.5, r=r)], warn=False)
        c.ensures("missing-centre-rejected", c.outcome(determine_default_theory_for, nocentre).raised(InvalidScatterer))
        # interpret_theory
        s = Sphere(n=1.5, r=r, center=cen)
        auto = c.call(interpret_theory, s, 'auto')
        c.ensures("auto-is-the-default-theory", type(auto) is type(determine_default_theory_for(s)))
        c.ensures("default-argument-is-auto", type(c.call(interpret_theory, s)) is Mie)
        inst = MieLens(lens_angle=0.8)
        c.ensures("instance-passed-through", c.call(interpret_theory, s, inst) is inst)
        made = c.call(interpret_theory, s, MieLens)
        c.ensures("class-is-instantiated", isinstance(made, MieLens) and not isinstance(made, type))
        c.ensures("explicit-class-equals-auto-choice", type(c.call(interpret_theory, s, Mie)) is type(auto))


@contract("C09", "multisphere_handoff", ["holopy.scattering.theory.multisphere:Multisphere._scsmfo_setup"],
          bounded="clusters of 3 spheres", patches=STUB)
def multisphere_handoff(c):
    """the multi-sphere solver is given the sphere positions relative to the cluster's centroid, in units of 1/k, with z reversed,
    the relative indices and the size parameters - so listing the spheres in another order permutes its arguments consistently, a
    common shift of the cluster changes nothing, and rotating the cluster about the optical axis rotates the positions it is given"""
    import holopy.scattering.theory.multisphere as ms
    k = c.real("k", pos=True, sample=(5, 20))
    n_med = c.real("medium_index", pos=True, sample=(1, 1.6))
    m = 3
    cs = [np.array([c.real("c%d_%d" % (i, q), sample=(-3, 3)) for q in range(3)], dtype=object if c.symbolic else float) for i in range(m)]
    rs = [c.real("r%d" % i, pos=True, sample=(0.2, 1)) for i in range(m)]
    ns = [c.real("n%d" % i, pos=True, sample=(1.2, 2)) for i in range(m)]
    if c.symbolic:
        c.requires(c.and_(*[r * k <= 1000 for r in rs]))
        c.requires(c.and_(*[(cs[i][q] - sum(cc[q] for cc in cs) / m) * k <= 10000 for i in range(m) for q in range(3)]))
    shift = np.array([c.real("shift_%d" % q, sample=(-5, 5)) for q in range(3)], dtype=object if c.symbolic else float)
    psi = c.angle("psi")
    calls = []

    class Fake:
        @staticmethod
        def amncalc(flag, x, y, z, mre, mim, xs, *rest):
            calls.append(dict(x=list(x), y=list(y), z=list(z), mre=list(mre), mim=list(mim), xs=list(xs), rest=rest))
            return None, 1, np.zeros((1, 5, 2), dtype=complex), 1
    had = 'scsmfo_min' in ms.__dict__
    saved = ms.__dict__.get('scsmfo_min')
    ms.scsmfo_min = Fake
    try:
        with deployed():
            th = ms.Multisphere()
            mk = lambda centres, order: Spheres([Sphere(n=ns[i], r=rs[i], center=centres[i]) for i in order], warn=False)
            def run(*a):
                # clusters too extended for the solver are refused with InvalidScatterer: not the subject here
                o = c.outcome(th._scsmfo_setup, *a)
                return o.ok or not o.raised(ms.InvalidScatterer)
            ok = run(mk(cs, [0, 1, 2]), k, n_med) and run(mk(cs, [2, 0, 1]), k, n_med) \
                and run(mk([v + shift for v in cs], [0, 1, 2]), k, n_med)
            com = sum(cs) / m
            cp, sp = c.cos(psi), c.sin(psi)
            rot = [np.array([com[0] + cp * (v[0] - com[0]) - sp * (v[1] - com[1]), com[1] + sp * (v[0] - com[0]) + cp * (v[1] - com[1]), v[2]],
                            dtype=object if c.symbolic else float) for v in cs]
            ok = ok and run(mk(rot, [0, 1, 2]), k, n_med)
    finally:
        if had:
            ms.scsmfo_min = saved
        else:
            del ms.scsmfo_min
    if not ok or len(calls) != 4:
        return
    a, perm, shifted, rotated = calls
    for i in range(m):
        c.ensures("centroid-centred-positions-in-units-of-1/k", c.and_(c.eq(a['x'][i], k * (cs[i][0] - com[0])), c.eq(a['y'][i], k * (cs[i][1] - com[1])),
                                                                      c.eq(a['z'][i], -k * (cs[i][2] - com[2]))))
        c.ensures("relative-index-and-size-parameter", c.and_(c.eq(a['mre'][i], ns[i] / n_med), c.eq(a['mim'][i], 0), c.eq(a['xs'][i], k * rs[i])))
    for pos, i in enumerate([2, 0, 1]):
        c.ensures("reordering-permutes-the-arguments", c.and_(*[c.eq(perm[key][pos], a[key][i]) for key in ('x', 'y', 'z', 'mre', 'xs')]))
    c.ensures("common-shift-invisible", c.and_(*[c.eq(shifted[key][i], a[key][i]) for key in ('x', 'y', 'z') for i in range(m)]))
    for i in range(m):
        c.ensures("rotation-about-the-axis-rotates-the-positions", c.and_(c.eq(rotated['x'][i], cp * a['x'][i] - sp * a['y'][i]),
                                                                          c.eq(rotated['y'][i], sp * a['x'][i] + cp * a['y'][i]),
                                                                          c.eq(rotated['z'][i], a['z'][i])))
    c.ensures("solver-options-passed", a['rest'][:5] == (th.niter, th.eps, th.qeps1, th.qeps2, th.meth))


@contract("C09", "uniform_spheres_in_any_notation", [SI + "_choose_mie_vs_multisphere", SI + "determine_default_theory_for", SI + "calc_field",
                                                     SI + "calc_holo", SI + "calc_intensity", SI + "interpret_theory", SI + "validate_scatterer"],
          bounded="a close pair of uniform spheres; index as a number, a complex number, a per-channel dictionary or a prior; radius a number or a prior",
          patches=STUB, max_paths=80)
def uniform_spheres_in_any_notation(c):
    """a cluster of UNIFORM spheres within 30 radii gets the multi-sphere theory however the spheres' values are written - the index a
    real or complex number, a per-illumination dictionary, or a prior; the radius a number or a prior (the calculation uses the
    guess) - without a 'coated spheres' warning, and every calculation entry point resolves theory='auto' to that same theory"""
    from holopy.core.prior import Uniform
    import holopy.scattering.interface as hsi
    notation = c.choice("index_and_radius_written_as", ["numbers", "complex index", "per-channel index", "prior index", "prior radius"])
    r = c.real("r", pos=True, sample=(0.3, 1))
    d = c.real("separation", pos=True, sample=(2.1, 25))
    c.requires(c.and_(d > 2 * r, d <= 30 * r))

    def sph(x):
        n = {"numbers": 1.5, "complex index": 1.5 + 0.1j, "per-channel index": {'red': 1.5, 'green': 1.55},
             "prior index": Uniform(1.4, 1.6), "prior radius": 1.5}[notation]
        rad = Uniform(0.5 * r, 2 * r, guess=r) if notation == "prior radius" else r
        return Sphere(n=n, r=rad, center=[x, 0.0, 5.0])
    pair = Spheres([sph(0.0), sph(d)], warn=False)
    seen = []

    class Spy:
        """stands in for ImageFormation: records which theory the entry point resolved"""
        def __init__(self, theory):
            seen.append(theory)
            raise _Stop()

    class _Stop(Exception):
        pass
    saved = hsi.ImageFormation
    hsi.ImageFormation = Spy
    det = detector_grid(2, 0.1, extra_dims={'illumination': ['red', 'green']}) if notation == "per-channel index" else detector_grid(2, 0.1)
    kw = dict(medium_index=1.33, illum_wavelen=({'red': 0.66, 'green': 0.52} if notation == "per-channel index" else 0.66), illum_polarization=(1, 0))
    try:
        with deployed():
            validated = hsi.validate_scatterer(pair)
            th = c.call(determine_default_theory_for, validated)
            warned = any(e[0] == 'warn' for e in c.events()) if c.symbolic else False
            c.ensures("multisphere-for-uniform-spheres", type(th) is Multisphere)
            c.ensures("no-coated-spheres-warning", not warned)
            for entry in (hsi.calc_holo, hsi.calc_field, hsi.calc_intensity):
                before = len(seen)
                try:
                    entry(det, pair, theory='auto', **kw)
                except _Stop:
                    pass
                c.ensures("every-entry-point-resolves-auto-to-multisphere", len(seen) == before + 1 and type(seen[-1]) is Multisphere,
                          detail=entry.__name__)
    finally:
        hsi.ImageFormation = saved
