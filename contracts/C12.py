"""C12  Posterior = prior x Gaussian likelihood, exactly as documented."""
import numpy as np
import xarray as xr

from pyvc.contract import contract
from pyvc import sym
import holopy.inference.model as hm
from holopy.inference.model import AlphaModel, ExactModel, LimitOverlaps
from holopy.core.prior import Uniform, Gaussian, BoundedGaussian
from holopy.core.utils import LnpostWrapper
from holopy.core.metadata import detector_grid, update_metadata, data_grid
from holopy.scattering.scatterer import Sphere, Spheres
from holopy.scattering.errors import InvalidScatterer, MissingParameter, MultisphereFailure, TmatrixFailure
from contracts.common import AbstractPointTheory
from contracts.C14 import _STATS

M = "holopy.inference.model:"
INF = float('inf')

META = {
    'out_of_reach': [],
    'assumptions': ["the forward value itself is C01's subject: here calc_func / calc_holo is a recording stand-in returning an arbitrary "
                    "(symbolic) image, so that the posterior algebra and the argument data-flow into the public calculation are what is proved",
                    "log is uninterpreted; the same syntactic term denotes the same value (L-LOG congruence instances)",
                    "data images are 2x2 (bounded in shape); pixel values, parameter values and noise levels are symbolic"],
}


def _model_pieces(c, noise=None, layered=False):
    """a sphere model with one prior of every kind; returns (model factory arguments, the priors)"""
    pri = dict(n=Uniform(1.2, 2.0), r=Uniform(-0.5, 1.5), x=Gaussian(0.3, 0.2), z=BoundedGaussian(5.0, 1.0, 2.0, 9.0))
    sph = Sphere(n=pri['n'], r=pri['r'], center=(pri['x'], 0.4, pri['z']))
    return sph, pri


def _pars(c):
    names = ['n', 'r', 'center.0', 'center.2']
    vals = {'n': c.real("v_n", sample=(1.0, 2.2)), 'r': c.real("v_r", sample=(-0.8, 1.8)),
            'center.0': c.real("v_x", sample=(-0.5, 1.0)), 'center.2': c.real("v_z", sample=(1.0, 10.0))}
    return names, vals


def _data(c, noise_attr=None, prefix="d"):
    vals = np.empty((2, 2), dtype=object if c.symbolic else float)
    for i in range(2):
        for j in range(2):
            vals[i, j] = c.real("%s%d%d" % (prefix, i, j), sample=(0.5, 1.5))
    return data_grid(vals, spacing=0.1, medium_index=1.33, illum_wavelen=0.66, illum_polarization=(1, 0), noise_sd=noise_attr)


class _Forward:
    """stand-in for the public hologram calculation: returns an arbitrary image and records its arguments"""

    def __init__(self, c, prefix="f"):
        self.c = c
        self.prefix = prefix
        self.calls = []

    def __call__(self, detector, scatterer, **kw):
        self.calls.append((detector, scatterer, kw))
        vals = np.empty((2, 2), dtype=object if self.c.symbolic else float)
        for i in range(2):
            for j in range(2):
                vals[i, j] = self.c.real("%s%d%d" % (self.prefix, i, j), sample=(0.5, 1.5))
        return data_grid(vals, spacing=0.1)


def _lnprior_spec(c, pri, vals):
    """sum of the documented log-densities, -inf outside a support / for an invalid scatterer"""
    n, r, x, z = vals['n'], vals['r'], vals['center.0'], vals['center.2']
    inside = c.and_(n >= 1.2, n <= 2.0, r >= -0.5, r <= 1.5, z >= 2.0, z <= 9.0)
    valid = r >= 0
    total = (c.log(1 / (2.0 - 1.2)) + c.log(1 / (1.5 + 0.5))
             + (-c.log(0.2 * c.sqrt(2 * c.pi)) - (x - 0.3) ** 2 / (2 * 0.2 ** 2))
             + (-c.log(1.0 * c.sqrt(2 * c.pi)) - (z - 5.0) ** 2 / (2 * 1.0 ** 2)))
    return inside, valid, total


@contract("C12", "lnprior", [M + "Model._lnprior", M + "Model.lnprior", M + "Model._scatterer_from_parameters",
                             M + "Model.ensure_parameters_are_listlike"], patches=_STATS)
def lnprior(c):
    """log-prior = sum of the parameters' log-densities; -inf when a value is outside its prior's support or yields an
    invalid scatterer (negative radius); name-keyed and list-ordered values give the same number"""
    sph, pri = _model_pieces(c)
    model = ExactModel(sph, calc_func=_Forward(c), theory=AbstractPointTheory(), noise_sd=0.1)
    names, vals = _pars(c)
    c.ensures("parameter-names", model._parameter_names == names)
    got = c.call(model.lnprior, vals)
    inside, valid, total = _lnprior_spec(c, pri, vals)
    c.ensures("minus-inf-outside-support", c.implies(c.not_(inside), c.eq(got, -INF)))
    c.ensures("minus-inf-invalid-scatterer", c.implies(c.not_(valid), c.eq(got, -INF)))
    c.ensures("sum-of-log-densities", c.implies(c.and_(inside, valid), c.eq(got, total, tol=1e-6)))
    as_list = c.call(model.lnprior, [vals[k] for k in names])
    c.ensures("dict-and-list-agree", c.eq(as_list, got))
    c.canary("never-minus-inf", c.not_(c.eq(got, -INF)))


@contract("C12", "lnposterior", [M + "Model._lnposterior", M + "Model.lnposterior", M + "Model._lnlike", M + "Model._residuals",
                                 M + "Model._find_noise", M + "ExactModel._forward"], patches=_STATS)
def lnposterior(c):
    """log-posterior = log-prior + log-likelihood; when the log-prior is -inf the result is -inf and NO forward
    calculation (and no pixel subsetting) takes place"""
    sph, pri = _model_pieces(c)
    fwd = _Forward(c)
    sigma = c.real("sigma", pos=True, sample=(0.05, 0.5))
    model = ExactModel(sph, calc_func=fwd, theory=AbstractPointTheory(), noise_sd=sigma)
    names, vals = _pars(c)
    data = _data(c)
    subset_calls = []
    saved = hm.make_subset_data
    hm.make_subset_data = lambda d, pixels=None, **k: (subset_calls.append(pixels), d)[1]
    try:
        post = c.call(model.lnposterior, vals, data)
        n_forward = len(fwd.calls)
        post_pix = c.call(model.lnposterior, vals, data, 3)
    finally:
        hm.make_subset_data = saved
    inside, valid, total = _lnprior_spec(c, pri, vals)
    ok = c.and_(inside, valid)
    c.ensures("no-forward-call-when-prior-is-minus-inf", c.implies(c.not_(ok), c.and_(c.eq(post, -INF), n_forward == 0,
                                                                                     len(subset_calls) == 0)))
    c.ensures("one-forward-call-otherwise", c.implies(ok, n_forward == 1))
    if n_forward == 1:
        f = fwd.calls[0]
        fv = [c.real("f%d%d" % (i, j)) for i in range(2) for j in range(2)] if False else None
    like = c.call(model.lnlike, vals, data) if c.truth(ok) else None
    if like is not None:
        prior_val = c.call(model.lnprior, vals)
        c.ensures("posterior-is-prior-plus-likelihood", c.eq(post, prior_val + like, tol=1e-6))
        c.ensures("pixel-subset-requested", subset_calls == [3])
        c.canary("posterior-is-prior-minus-likelihood", c.eq(post, prior_val - like))


@contract("C12", "lnlike", [M + "Model._lnlike", M + "Model._residuals", M + "Model._find_noise"], patches=_STATS)
def lnlike(c):
    """log-likelihood = sum over pixels of the Gaussian log-density of (forward - data) at the noise level, for a scalar
    and for a per-pixel noise level"""
    sph, pri = _model_pieces(c)
    fwd = _Forward(c)
    kind = c.choice("noise", ["scalar", "per-pixel"])
    if kind == "scalar":
        s = c.real("sigma", pos=True, sample=(0.05, 0.5))
        sig = [s] * 4
        noise = s
    else:
        sig = [c.real("sigma%d" % k, pos=True, sample=(0.05, 0.5)) for k in range(4)]
        noise = xr.DataArray(np.array(sig, dtype=object if c.symbolic else float).reshape(1, 2, 2), dims=['z', 'x', 'y'])
    model = ExactModel(sph, calc_func=fwd, theory=AbstractPointTheory(), noise_sd=None)
    names, vals = _pars(c)
    c.requires(c.and_(vals['r'] >= 0))
    data = _data(c, noise_attr=noise)
    got = c.call(model.lnlike, vals, data)
    c.ensures("one-forward-call", len(fwd.calls) == 1)
    f = [c.values[k] if not c.symbolic else None for k in ()]  # (placeholder, keeps both modes symmetric)
    fvals = [fwd_v for fwd_v in _last_forward_values(c)]
    dvals = list(data.values.flat)
    spec = 0
    for k in range(4):
        spec = spec + (-0.5 * c.log(2 * c.pi) - c.log(sig[k]) - 0.5 * ((fvals[k] - dvals[k]) / sig[k]) ** 2)
    c.ensures("gaussian-log-density", c.eq(got, spec, tol=1e-6))
    # pixels are matched by their coordinates, not by their position in memory: the same image stored with its axes in another order
    # has the same likelihood
    stored_otherwise = data.transpose(*[d for d in ('y', 'x', 'z') if d in data.dims])
    c.ensures("axis-order-of-the-stored-image-irrelevant", c.eq(c.call(model.lnlike, vals, stored_otherwise), got, tol=1e-6))
    c.canary("missing-normalisation", c.eq(got, sum(-0.5 * ((fvals[k] - dvals[k]) / sig[k]) ** 2 for k in range(4))))


def _last_forward_values(c):
    if c.symbolic:
        import z3
        return [sym.SNum(z3.Real("f%d%d" % (i, j))) for i in range(2) for j in range(2)]
    return [c.values["f%d%d" % (i, j)] for i in range(2) for j in range(2)]


@contract("C12", "noise_precedence", [M + "Model._find_noise", M + "Model._find_optics"], patches=_STATS)
def noise_precedence(c):
    """the model's noise level is used if given, else the data's; None with all-Uniform priors means 1, otherwise
    MissingParameter; optics follow the same precedence key by key"""
    s_model, s_data = c.real("sigma_model", pos=True), c.real("sigma_data", pos=True)
    uni = Sphere(n=Uniform(1.2, 2.0), r=0.5, center=(0.1, 0.2, 5.0))
    mixed, _ = _model_pieces(c)
    th = AbstractPointTheory()
    data_with = _data(c, noise_attr=s_data)
    data_without = _data(c, noise_attr=None)
    m1 = ExactModel(uni, calc_func=_Forward(c), theory=th, noise_sd=s_model)
    pars1 = [c.real("v_n", sample=(1.2, 2.0))]
    c.ensures("model-noise-wins", c.eq(c.call(m1._find_noise, pars1, data_with), s_model))
    m2 = ExactModel(uni, calc_func=_Forward(c), theory=th)
    c.ensures("data-noise-otherwise", c.eq(c.call(m2._find_noise, pars1, data_with), s_data))
    c.ensures("uniform-priors-default-to-one", c.eq(c.call(m2._find_noise, pars1, data_without), 1))
    m3 = ExactModel(mixed, calc_func=_Forward(c), theory=th)
    pars3 = [1.5, 0.5, 0.3, 5.0]
    c.ensures("nonuniform-priors-need-noise", c.outcome(m3._find_noise, pars3, data_without).raised(MissingParameter))
    n_model = c.real("index_model", pos=True)
    m4 = ExactModel(uni, calc_func=_Forward(c), theory=th, medium_index=n_model)
    opt = c.call(m4._find_optics, pars1, data_with)
    c.ensures("model-optics-win-per-key", c.and_(c.eq(opt['medium_index'], n_model), c.eq(opt['illum_wavelen'], 0.66)))
    bare = data_grid(np.ones((2, 2)), spacing=0.1)
    c.ensures("missing-optics-raise", c.outcome(m4._find_optics, pars1, bare).raised(MissingParameter))
    # a model without optics of its own reads them from the data of EACH call: nothing is remembered from an earlier data set
    w2, i2 = c.real("second_wavelen", pos=True, sample=(0.4, 0.5)), c.real("second_index", pos=True, sample=(1.4, 1.5))
    other = update_metadata(_data(c, noise_attr=s_data, prefix="e"), illum_wavelen=w2, medium_index=i2, illum_polarization=(0, 1))
    first = c.call(m2._find_optics, pars1, data_with)
    second = c.call(m2._find_optics, pars1, other)
    c.ensures("optics-read-from-the-data-of-each-call", c.and_(c.eq(first['illum_wavelen'], 0.66), c.eq(first['medium_index'], 1.33),
                                                               c.eq(second['illum_wavelen'], w2), c.eq(second['medium_index'], i2),
                                                               c.eq(np.asarray(second['illum_polarization'])[:2], np.array([0.0, 1.0]))))
    back_again = c.call(m2._find_optics, pars1, data_with)
    c.ensures("and-again-from-the-first", c.and_(c.eq(back_again['illum_wavelen'], 0.66), c.eq(back_again['medium_index'], 1.33)))
    prior_noise = Uniform(0.01, 1.0)
    m5 = ExactModel(uni, calc_func=_Forward(c), theory=th, noise_sd=prior_noise)
    v_noise = c.real("v_noise", sample=(0.01, 1.0))
    c.ensures("fitted-noise-parameter", c.eq(c.call(m5._find_noise, [pars1[0], v_noise], data_with), v_noise))


def _forward_contract(kind):
    def body(c):
        n_pr, r_pr, a_pr, idx_pr = Uniform(1.2, 2.0), Uniform(0.1, 1.5), Uniform(0.2, 1.2), Uniform(1.0, 1.6)
        sph = Sphere(n=n_pr, r=r_pr, center=(0.1, 0.2, 5.0))
        th = AbstractPointTheory()
        rec = _Forward(c)
        vn, vr, va, vi = (c.real("v_n", sample=(1.2, 2)), c.real("v_r", sample=(0.1, 1.5)), c.real("v_alpha", sample=(0.2, 1.2)),
                          c.real("v_index", sample=(1.0, 1.6)))
        data = _data(c)
        c.requires(vr >= 0)          # (a negative radius is an invalid scatterer: covered by the lnprior contract)
        if kind == "alpha":
            model = AlphaModel(sph, alpha=a_pr, medium_index=idx_pr, theory=th, noise_sd=0.1)
            pars = {'n': vn, 'r': vr, 'medium_index': vi, 'alpha': va}
            saved = hm.calc_holo
            hm.calc_holo = rec
            try:
                out = c.call(model.forward, pars, data)
            finally:
                hm.calc_holo = saved
        else:
            model = ExactModel(sph, calc_func=rec, medium_index=idx_pr, theory=th, noise_sd=0.1)
            pars = {'n': vn, 'r': vr, 'medium_index': vi}
            out = c.call(model.forward, pars, data)
        c.ensures("parameter-names", set(model._parameter_names) == set(pars))
        c.ensures("one-public-calculation", len(rec.calls) == 1)
        det, scat, kw = rec.calls[0]
        c.ensures("detector-is-the-data", det is data)
        c.ensures("scatterer-substituted", c.and_(isinstance(scat, Sphere), c.eq(scat.n, vn), c.eq(scat.r, vr),
                                                  c.eq(np.array(scat.center, dtype=float), np.array([0.1, 0.2, 5.0]))))
        c.ensures("optics-substituted", c.and_(c.eq(kw['medium_index'], vi), c.eq(kw['illum_wavelen'], 0.66),
                                               c.eq(kw['illum_polarization'].values, np.array([1., 0., 0.]))))
        c.ensures("theory-passed", isinstance(kw['theory'], AbstractPointTheory))
        if kind == "alpha":
            c.ensures("scaling-is-alpha", c.eq(kw['scaling'], va))
        else:
            c.ensures("no-scaling-argument", 'scaling' not in kw)

        def failing(*a, **k):
            raise MultisphereFailure()
        if kind == "alpha":
            hm.calc_holo = failing
            try:
                c.ensures("solver-failure-maps-to-minus-inf", c.eq(c.call(model.forward, pars, data), -INF))
            finally:
                hm.calc_holo = saved
        else:
            model.calc_func = failing
            c.ensures("solver-failure-maps-to-minus-inf", c.eq(c.call(model.forward, pars, data), -INF))
    body.__doc__ = ("the forward hologram of %s is the public calculation called with the substituted scatterer, theory and "
                    "optics%s" % ("AlphaModel" if kind == "alpha" else "ExactModel", " and scaling = alpha" if kind == "alpha" else ""))
    return body


contract("C12", "forward_alpha", [M + "AlphaModel._forward", M + "Model.forward", M + "Model._find_optics",
                                  M + "Model.theory_from_parameters", M + "Model._scatterer_from_parameters"])(_forward_contract("alpha"))
contract("C12", "forward_exact", [M + "ExactModel._forward", M + "Model.forward"])(_forward_contract("exact"))


@contract("C12", "forward_is_calc_holo", [M + "AlphaModel._forward", "holopy.scattering.interface:calc_holo"],
          bounded="2x2 detector", timeout_ms=60000)
def forward_is_calc_holo(c):
    """end to end: AlphaModel.forward equals calc_holo for the substituted scatterer, scaling and optics (abstract kernel)"""
    from holopy.scattering.interface import calc_holo
    n_pr, r_pr, a_pr = Uniform(1.2, 2.0), Uniform(0.1, 1.5), Uniform(0.2, 1.2)
    sph = Sphere(n=n_pr, r=r_pr, center=(0.1, 0.2, 5.0))
    th = AbstractPointTheory()
    vn, vr, va = c.real("v_n", sample=(1.2, 2)), c.real("v_r", sample=(0.1, 1.5)), c.real("v_alpha", sample=(0.2, 1.2))
    det = update_metadata(detector_grid(2, 0.1), medium_index=1.33, illum_wavelen=0.66, illum_polarization=(1, 0))
    c.requires(vr >= 0)
    model = AlphaModel(sph, alpha=a_pr, theory=th, noise_sd=0.1)
    got = c.call(model.forward, {'n': vn, 'r': vr, 'alpha': va}, det)
    ref = c.call(calc_holo, det, Sphere(n=vn, r=vr, center=(0.1, 0.2, 5.0)), theory=th, scaling=va)
    c.ensures("equals-public-calculation", c.eq(got.values, ref.values))


@contract("C12", "limit_overlaps", [M + "LimitOverlaps.check", M + "Model._lnprior",
                                    "holopy.scattering.scatterer.spherecluster:Spheres.largest_overlap"],
          patches=[("holopy.scattering.scatterer.spherecluster", "Spheres.overlaps", property(lambda self: []))])
def limit_overlaps(c):
    """LimitOverlaps.check(s) <=> largest overlap <= fraction * smallest diameter; a violated constraint makes the log-prior -inf"""
    frac = c.real("fraction", nonneg=True, sample=(0, 1))
    r1, r2 = c.real("r1", pos=True, sample=(0.2, 1)), c.real("r2", pos=True, sample=(0.2, 1))
    d = c.real("separation", nonneg=True, sample=(0, 3))
    s = Spheres([Sphere(n=1.5, r=r1, center=(0, 0, 0)), Sphere(n=1.5, r=r2, center=(d, 0, 0))], warn=False)
    got = c.call(LimitOverlaps(frac).check, s)
    overlap = c.max(0, r1 + r2 - c.sqrt(d * d))
    c.ensures("check-formula", c.iff(bool(got), overlap <= 2 * c.min(r1, r2) * frac))


@contract("C12", "lnpost_wrapper", ["holopy.core.utils:LnpostWrapper.evaluate", "holopy.core.utils:LnpostWrapper.__init__"])
def lnpost_wrapper(c):
    """the sampler wrapper evaluates +/- the model's log-posterior at the given values, data and pixel count"""
    calls = []

    class FakeModel:
        def _lnposterior(self, pars, data, pixels=None):
            calls.append((pars, data, pixels))
            return pars[0] * 2 + 1
    v = c.real("v")
    data = object()
    plus = LnpostWrapper(FakeModel(), data, new_pixels=7)
    minus = LnpostWrapper(FakeModel(), data, minus=True)
    c.ensures("plus", c.eq(c.call(plus.evaluate, [v]), v * 2 + 1))
    c.ensures("minus", c.eq(c.call(minus.evaluate, [v]), -(v * 2 + 1)))
    c.ensures("arguments", calls[0][1] is data and calls[0][2] == 7 and calls[1][2] is None)
