"""C03  Cross sections obey energy conservation and the optical theorem."""
import numpy as np

from pyvc.contract import contract
from pyvc import sym
from pyvc.sym import SCplx
import holopy.scattering.theory.mie_f.miescatlib as msl
from holopy.scattering.scatterer import Sphere, Spheres
from holopy.scattering.errors import InvalidScatterer
from holopy.core.metadata import to_vector
from contracts.kernels import mie_kernels

ML = "holopy.scattering.theory.mie_f.miescatlib:"
TH = "holopy.scattering.theory."

META = {
    'out_of_reach': ["absorption >= 0 and = 0 for a real index, asymmetry in [-1, 1], the Rayleigh limit, equality with solid-angle integrals, and a "
                     "one-sphere cluster = single sphere: all statements about the VALUES of the Mie / SCSMFO coefficients (Fortran, scipy Bessel)",
                     "Multisphere._calc_cext / _calc_cscat / _calc_asym (optical theorem on the cluster amplitude) are not under contract yet"],
    'assumptions': ["the coefficient arrays a_l, b_l are arbitrary complex numbers (opaque kernel output); series length 1-4 enumerated (bounded)",
                    "Bohren & Huffman eqs. 4.61, 4.62 and p. 120, 122 are the specification of the sums"],
}


def _coeffs(c, L):
    a = np.array([c.complex("a%d" % l) for l in range(1, L + 1)], dtype=object if c.symbolic else complex)
    b = np.array([c.complex("b%d" % l) for l in range(1, L + 1)], dtype=object if c.symbolic else complex)
    return a, b


def _abs2(c, z):
    return c.re(z) ** 2 + c.im(z) ** 2


@contract("C03", "series_sums", [ML + "cross_sections", ML + "asymmetry_parameter"], bounded="series of 1-4 terms; coefficients symbolic complex")
def series_sums(c):
    """cross_sections = (sum (2l+1)(|a_l|^2+|b_l|^2), sum (2l+1) Re(a_l+b_l), |sum (2l+1)(-1)^l (a_l-b_l)|^2), l = 1..lmax;
    asymmetry sum = sum l(l+2)/(l+1) Re(a_l a*_{l+1} + b_l b*_{l+1}) + sum (2l+1)/(l(l+1)) Re(a_l b*_l)   (Bohren & Huffman)"""
    L = c.choice("terms", [1, 2, 3, 4])
    a, b = _coeffs(c, L)
    cs = c.call(msl.cross_sections, a, b)
    sca = sum((2 * l + 1) * (_abs2(c, a[l - 1]) + _abs2(c, b[l - 1])) for l in range(1, L + 1))
    ext = sum((2 * l + 1) * c.re(a[l - 1] + b[l - 1]) for l in range(1, L + 1))
    back = sum((2 * l + 1) * (-1) ** l * (a[l - 1] - b[l - 1]) for l in range(1, L + 1))
    c.ensures("scattering-sum", c.eq(cs[0], sca))
    c.ensures("extinction-sum", c.eq(cs[1], ext))
    c.ensures("backscattering-sum", c.eq(cs[2], _abs2(c, back)))
    c.ensures("scattering-sum-nonnegative", c.ge(cs[0], 0))
    nonzero = c.or_(*[c.not_(c.eq(_abs2(c, z), 0)) for z in list(a) + list(b)])
    c.ensures("scattering-sum-positive-unless-all-coefficients-vanish", c.implies(nonzero, c.gt(cs[0], 0)))
    g = c.call(msl.asymmetry_parameter, a, b)
    self_t = sum(l * (l + 2.) / (l + 1.) * c.re(a[l - 1] * c.conj(a[l]) + b[l - 1] * c.conj(b[l])) for l in range(1, L))
    cross_t = sum((2. * l + 1.) / (l * (l + 1)) * c.re(a[l - 1] * c.conj(b[l - 1])) for l in range(1, L + 1))
    c.ensures("asymmetry-sum", c.eq(g, self_t + cross_t))
    c.canary("wrong-multiplicity", c.eq(cs[0], sum((2 * l - 1) * (_abs2(c, a[l - 1]) + _abs2(c, b[l - 1])) for l in range(1, L + 1))))


@contract("C03", "mie_cross_sections", [TH + "mie:Mie.raw_cross_sections", ML + "cross_sections", ML + "asymmetry_parameter"],
          bounded="series truncated to 3 opaque terms")
def mie_cross_sections(c):
    """Mie.raw_cross_sections returns [C_sca, C_abs, C_ext, g] with C_ext = C_sca + C_abs, C_sca = (2 pi/k^2) sum..., C_ext = (2 pi/k^2) sum...,
    g = 4 pi/(k^2 C_sca) * (asymmetry sum); C_sca >= 0; sphere collections are refused"""
    from holopy.scattering.theory import mie as miemod
    k = c.real("k", pos=True, sample=(5, 20))
    n_med = c.real("medium_index", pos=True, sample=(1, 1.6))
    n, r = c.real("n", pos=True, sample=(1.2, 2)), c.real("r", pos=True, sample=(0.1, 1))
    if c.symbolic:
        c.requires(k * r <= 1000)
    with mie_kernels() as rec:
        th = miemod.Mie()
        s = Sphere(n=n, r=r, center=(0, 0, 0))
        pol = to_vector((1, 0))
        out = c.call(th.raw_cross_sections, s, k, n_med, pol)
        co = th._scat_coeffs(s, k, n_med)
        a, b = co[0], co[1]
        sums = msl.cross_sections(a, b)
        pref = 2 * c.pi / k ** 2
        c.ensures("scattering", c.eq(out[0], sums[0] * pref))
        c.ensures("extinction", c.eq(out[2], sums[1] * pref))
        c.ensures("extinction-equals-scattering-plus-absorption", c.eq(out[2], out[0] + out[1]))
        c.ensures("scattering-nonnegative", c.ge(out[0], 0))
        c.requires(c.not_(c.eq(out[0], 0)) if c.symbolic else abs(out[0]) > 1e-12)
        c.ensures("asymmetry", c.eq(out[3], 4 * c.pi / (k ** 2 * out[0]) * msl.asymmetry_parameter(a, b)))
        c.ensures("order-of-results", out.shape == (4,))
        cluster = Spheres([s, Sphere(n=n, r=r, center=(5, 0, 0))], warn=False)
        c.ensures("collections-refused", c.outcome(th.raw_cross_sections, cluster, k, n_med, pol).raised(InvalidScatterer))
        c.canary("absorption-is-sum", c.eq(out[1], out[2] + out[0]))


@contract("C03", "multisphere_cross_sections", [TH + "multisphere:Multisphere._calc_cext", TH + "multisphere:Multisphere._calc_cscat",
                                                TH + "multisphere:Multisphere.raw_cross_sections", TH + "multisphere:normalize_polarization"],
          bounded="cluster expansion with 2 opaque coefficient pairs")
def multisphere_cross_sections(c):
    """multi-sphere theory: C_ext = (4 pi/k^2) Re(p^T D A(0,0) D p) with A the forward amplitude matrix the scattering-matrix
    calculation returns and D = diag(1,-1) (optical theorem); C_sca = (4 pi/k^2) sum |a0 + exp(-2 i gamma) a1|^2; C_abs = C_ext - C_sca"""
    import holopy.scattering.theory.multisphere as ms
    from contracts.C09 import deployed
    k = c.real("k", pos=True, sample=(5, 20))
    gamma = c.angle("gamma")
    amn = np.empty((1, 2, 2), dtype=object if c.symbolic else complex)
    for j in range(2):
        for q in range(2):
            amn[0, j, q] = c.complex("a%d%d" % (j, q))
    A = np.array([[c.complex("A%d%d" % (i, j)) for j in range(2)] for i in range(2)], dtype=object if c.symbolic else complex)
    pol = np.array([c.cos(gamma), c.sin(gamma), 0 * c.cos(gamma)], dtype=object if c.symbolic else float)
    saved = ms._asm_far, ms.__dict__.get('_COMPILED_FORTRAN')
    seen = []

    def asm_far(theta, phi, amn_, lmax):
        seen.append((theta, phi))
        return A
    ms._asm_far = asm_far
    calls = []
    try:
        with deployed():
            th = ms.Multisphere()
            th._scsmfo_setup = lambda scatterer, medium_wavevec, medium_index: (amn, 1)
            th._calc_asym = lambda **kw: (calls.append(kw), 0.5)[1]
            cext = c.call(th._calc_cext, None, k, 1.33, pol, amn=amn, lmax=1)
            csca = c.call(th._calc_cscat, None, k, 1.33, pol, amn=amn, lmax=1)
            allfour = c.call(th.raw_cross_sections, None, k, 1.33, pol)
    finally:
        ms._asm_far = saved[0]
    p = [c.cos(gamma), c.sin(gamma)]
    D = [1, -1]
    fwd = sum(p[i] * D[i] * A[i, j] * D[j] * p[j] for i in range(2) for j in range(2))
    c.ensures("forward-direction", all(t == 0. and f == 0. for t, f in seen) and len(seen) >= 1)
    c.ensures("optical-theorem", c.eq(cext, 4 * c.pi / k ** 2 * c.re(fwd)))
    if c.symbolic:
        e2 = SCplx(c.cos(2 * gamma).e, (-c.sin(2 * gamma)).e)
    else:
        e2 = np.exp(-2j * gamma)
    spec = sum(c.re(amn[0, j, 0] + e2 * amn[0, j, 1]) ** 2 + c.im(amn[0, j, 0] + e2 * amn[0, j, 1]) ** 2 for j in range(2))
    c.ensures("scattering-coefficient-sum", c.eq(csca, 4 * c.pi / k ** 2 * spec))
    c.ensures("scattering-nonnegative", c.ge(4 * c.pi / k ** 2 * spec, 0))      # (with the previous clause: C_sca >= 0)
    c.ensures("four-results", c.and_(c.eq(allfour[0], csca), c.eq(allfour[2], cext), c.eq(allfour[1], cext - csca)))
    c.ensures("extinction-equals-scattering-plus-absorption", c.eq(allfour[2], allfour[0] + allfour[1]))


@contract("C03", "mie_cross_sections_wiring", [TH + "mie:Mie.raw_cross_sections"])
def mie_wiring(c):
    """for a series of ANY length: with S_sca, S_ext and the asymmetry sum whatever the series functions return,
    Mie.raw_cross_sections = [2 pi S_sca/k^2, C_ext - C_sca, 2 pi S_ext/k^2, 4 pi/(k^2 C_sca) * asym]; hence C_ext = C_sca + C_abs"""
    from holopy.scattering.theory import mie as miemod
    k = c.real("k", pos=True, sample=(5, 20))
    n_med = c.real("medium_index", pos=True, sample=(1, 1.6))
    n, r = c.real("n", pos=True, sample=(1.2, 2)), c.real("r", pos=True, sample=(0.1, 1))
    # homogeneous, or layered with a core of any size: the prefactor 2 pi / k^2 does not involve the particle at all
    layers = c.choice("sphere", ["homogeneous", "two layers"])
    core = c.real("core_fraction", pos=True, sample=(0.2, 0.9))
    c.requires(core < 1)
    S_sca, S_ext, S_back, asym = c.real("S_sca", sample=(0.1, 5)), c.real("S_ext", sample=(0.1, 5)), c.real("S_back", sample=(0, 5)), c.real("asym", sample=(-1, 1))
    c.requires(c.not_(c.eq(S_sca, 0)) if c.symbolic else abs(S_sca) > 1e-9)
    if c.symbolic:
        c.requires(k * r <= 1000)
    with mie_kernels() as rec:
        seen = []

        class Sums:
            nstop = staticmethod(miemod.miescatlib.nstop)
            scatcoeffs = staticmethod(miemod.miescatlib.scatcoeffs)

            @staticmethod
            def cross_sections(al, bl):
                seen.append(('cs', al, bl))
                return np.array([S_sca, S_ext, S_back], dtype=object if c.symbolic else float)

            @staticmethod
            def asymmetry_parameter(al, bl):
                seen.append(('g', al, bl))
                return asym
        miemod.miescatlib = Sums
        th = miemod.Mie()
        sphere = Sphere(n=n, r=r, center=(0, 0, 0)) if layers == "homogeneous" else Sphere(n=[n + 0.2, n], r=[core * r, r], center=(0, 0, 0))
        out = c.call(th.raw_cross_sections, sphere, k, n_med, to_vector((1, 0)))
    c.ensures("scattering", c.eq(out[0], 2 * c.pi * S_sca / k ** 2))
    c.ensures("extinction", c.eq(out[2], 2 * c.pi * S_ext / k ** 2))
    c.ensures("absorption-is-the-difference", c.eq(out[1], out[2] - out[0]))
    c.ensures("extinction-equals-scattering-plus-absorption", c.eq(out[2], out[0] + out[1]))
    c.ensures("asymmetry", c.eq(out[3], 4 * c.pi / (k ** 2 * out[0]) * asym))
    c.ensures("same-coefficients-for-both-sums", c.and_(len(seen) == 2, c.eq(seen[0][1], seen[1][1]), c.eq(seen[0][2], seen[1][2])))
    c.canary("prefactor-pi-over-k2", c.eq(out[0], c.pi * S_sca / k ** 2))
