"""C08  Analytic sphere-through-lens theory equals the numerical lens wrapper.

Within reach of function contracts (claimed):
  * the aberrated variant with every aberration coefficient zero - a scalar or a list of any of the stated lengths - returns
    exactly the unaberrated theory's field (through the real _calculate_phase / legval / pupil-integral / raw_fields code);
  * the generic lens wrapper gives the same integrands, integrals and fields whether or not the optional acceleration
    library (numexpr) is used - its expression strings denote the same formulas as the numpy branch.
Out of reach (stated, not claimed): "equal once the quadrature is converged" and refinement independence are approximation-error
statements of numerical analysis in floating point (and need the Fortran Lorenz-Mie solver).  Interpolated = directly evaluated radial
integrals is an approximation-error statement too: it has a sampled native contract over the property's ranges (bounded, never proved).
"""
import contextlib
import sys
import types

import numpy as np

from pyvc.contract import contract
from pyvc import sym
from holopy.scattering.theory import MieLens
from holopy.scattering.theory.mielens import AberratedMieLens
import holopy.scattering.theory.mielensfunctions as mlf
import holopy.scattering.theory.lens as hl
from holopy.scattering.theory.lens import Lens
from holopy.scattering.theory.scatteringtheory import ScatteringTheory
from holopy.scattering.scatterer import Sphere
from holopy.core.metadata import to_vector
from contracts.kernels import opaque_real, opaque_complex

TH = "holopy.scattering.theory."

META = {
    'out_of_reach': ["analytic Mie+lens = lens-wrapped Lorenz-Mie 'once the quadrature is converged', and independence of quadrature refinement: "
                     "approximation-error statements (and the Lorenz-Mie solver is Fortran, not built here)",
                     "interpolated = directly evaluated radial integrals: Chebyshev approximation error, numerical analysis in floating point - "
                     "not provable here; checked by sampled native runs over the stated ranges (interpolated_equals_direct_native, bounded)"],
    'assumptions': ["Gauss-Legendre points / weights are arbitrary reals (2 or 3 of them: bounded), the Mie far-field matrices S, P at a quadrature "
                    "point and the Bessel functions j0, j1 are opaque deterministic functions of their arguments",
                    "numexpr.evaluate(expr) evaluates the expression string with numpy's elementwise semantics over the caller's local variables "
                    "(assumed contract of the optional dependency, which is not installed here)",
                    "numpy.polynomial.legendre.legval is executed as it is (numpy code) on symbolic entries"],
}


# ------------------------------------------------------------------------------------ kernels below the pupil integral
@contextlib.contextmanager
def pupil_kernels(c, npts):
    """MieLensCalculator with symbolic quadrature points/weights, opaque Mie matrices and opaque Bessel functions; the phase, the
    integrand, the quadrature sum and the recombination into fields are the real code"""
    saved = (mlf.gauss_legendre_pts_wts, mlf.MieLensCalculator._precompute_scattering_matrices, mlf.j0, mlf.j1)
    A = (lambda v: np.array(v, dtype=object if c.symbolic else float))

    def pts_wts(a, b, npts=100):
        n = len(QP)
        return A(QP[:n]), A(QW[:n])

    def precompute(self):
        th = np.asarray(self._theta_pts).reshape(-1)
        self._scat_perp_values = np.array([opaque_complex("S_perp", [t, self.index_ratio, self.size_parameter]) for t in th],
                                          dtype=object if c.symbolic else complex).reshape(-1, 1)
        self._scat_prll_values = np.array([opaque_complex("S_prll", [t, self.index_ratio, self.size_parameter]) for t in th],
                                          dtype=object if c.symbolic else complex).reshape(-1, 1)

    def bessel(name):
        def f(x):
            x = np.asarray(x, dtype=object if c.symbolic else float)
            out = np.empty(x.shape, dtype=object if c.symbolic else float)
            out.reshape(-1)[:] = [opaque_real(name, [v]) for v in x.reshape(-1)]
            return out
        return f

    QP = [c.real("q%d" % i, sample=(0.65, 0.99)) for i in range(npts)]
    QW = [c.real("w%d" % i, pos=True, sample=(0.05, 0.2)) for i in range(npts)]
    for q in QP:
        c.requires(c.and_(q > 0.1, q <= 1))
    mlf.gauss_legendre_pts_wts = pts_wts
    mlf.MieLensCalculator._precompute_scattering_matrices = precompute
    mlf.j0, mlf.j1 = bessel("J0"), bessel("J1")
    try:
        yield
    finally:
        mlf.gauss_legendre_pts_wts, mlf.MieLensCalculator._precompute_scattering_matrices, mlf.j0, mlf.j1 = saved


ZEROS = {"scalar 0.0": 0.0, "scalar 0": 0, "[0.0]": [0.0], "[0, 0]": [0, 0], "3 zeros": [0.0, 0.0, 0.0],
         "array of 5 zeros": np.zeros(5), "tuple of 4 zeros": (0.0, 0.0, 0.0, 0.0)}


@contract("C08", "zero_aberration", [TH + "mielensfunctions:AberratedMieLensCalculator._calculate_phase",
                                     TH + "mielensfunctions:AberratedMieLensCalculator._calculate_aberrated_phase",
                                     TH + "mielensfunctions:MieLensCalculator._direct_eval_mielens_i_n",
                                     TH + "mielensfunctions:MieLensCalculator._calculate_phase",
                                     TH + "mielensfunctions:MieLensCalculator.calculate_scattered_field",
                                     TH + "mielens:AberratedMieLens._create_calculator", TH + "mielens:MieLens.raw_fields"],
          bounded="2 quadrature points; zero coefficients given as the 7 forms in contracts/C08.py:ZEROS (scalar, lists of 1-5)", max_paths=120,
          timeout_ms=60000)
def zero_aberration(c):
    """AberratedMieLens with all aberration coefficients zero (scalar or list) returns exactly MieLens's field, at every point,
    position above or below focus, polarization direction, sphere and acceptance angle"""
    from contracts.C05 import _mielens_fields
    form = c.choice("zero_given_as", sorted(ZEROS))
    rho = c.real("krho", nonneg=True, sample=(0, 30))
    phi = c.angle("phi", lo=0, hi=2 * c.pi)
    kz = c.real("kz", sample=(-30, 30))
    gamma = c.angle("gamma")
    m, x = c.real("index_ratio", pos=True, sample=(1.05, 1.6)), c.real("size_parameter", pos=True, sample=(1, 10))
    lens = c.real("lens_angle", pos=True, sample=(0.1, 1.4))
    c.requires(rho < 390)
    acc = {'interpolate_integrals': False}
    with pupil_kernels(c, 2):
        plain = MieLens(lens_angle=lens, calculator_accuracy_kwargs=dict(acc))
        aber = AberratedMieLens(spherical_aberration=ZEROS[form], lens_angle=lens, calculator_accuracy_kwargs=dict(acc))
        E0 = c.call(_mielens_fields, c, plain, rho, phi, kz, gamma, m, x)
        E1 = c.call(_mielens_fields, c, aber, rho, phi, kz, gamma, m, x)
        some = AberratedMieLens(spherical_aberration=[0.0, c.real("a5", nonzero=True, sample=(0.2, 2))], lens_angle=lens,
                                calculator_accuracy_kwargs=dict(acc))
        E2 = c.call(_mielens_fields, c, some, rho, phi, kz, gamma, m, x)
    for comp in range(3):
        c.ensures("zero-aberration-equals-unaberrated", c.eq(E1[comp][0], E0[comp][0]))
    c.canary("aberration-never-matters", c.eq(E2[0][0], E0[0][0]))


@contract("C08", "zero_aberration_phase", [TH + "mielensfunctions:AberratedMieLensCalculator._calculate_phase",
                                           TH + "mielensfunctions:AberratedMieLensCalculator._calculate_aberrated_phase"],
          bounded="3 quadrature points; coefficient lists of length 1-5", max_paths=40)
def zero_aberration_phase(c):
    """the pupil phase of the unaberrated calculator is kz (1 - cos theta); the aberrated calculator's phase with symbolic coefficients
    a_i reduces to exactly that when every a_i = 0 (numpy's legval runs as it is; its float recurrence constants make the general
    Legendre-series identity hold only to rounding, which C08 does not state - DESIGN.md note N11)"""
    n = c.choice("coefficients", [1, 2, 3, 4, 5])
    a = [c.real("a%d" % i, sample=(-2, 2)) for i in range(n)]
    kz = c.real("kz", sample=(-30, 30))
    with pupil_kernels(c, 3):
        calc = mlf.AberratedMieLensCalculator(spherical_aberration=list(a), particle_kz=kz, index_ratio=1.2, size_parameter=3.0, lens_angle=0.8,
                                              interpolate_integrals=False)
        plain = mlf.MieLensCalculator(particle_kz=kz, index_ratio=1.2, size_parameter=3.0, lens_angle=0.8, interpolate_integrals=False)
        got = c.call(calc._calculate_phase)
        base = c.call(plain._calculate_phase)
    q = [v for v in np.asarray(calc._quad_pts).reshape(-1)]

    for i, qi in enumerate(q):
        c.ensures("unaberrated-phase", c.eq(np.asarray(base).reshape(-1)[i], kz * (1 - qi)))
        c.ensures("zero-coefficients-give-the-unaberrated-phase",
                  c.implies(c.and_(*[c.eq(v, 0, tol=0) for v in a]), c.eq(np.asarray(got).reshape(-1)[i], np.asarray(base).reshape(-1)[i])))
    c.canary("coefficients-never-matter", c.eq(np.asarray(got).reshape(-1)[0], np.asarray(base).reshape(-1)[0]))


# ------------------------------------------------------------------------------------------ lens wrapper: numexpr on / off
class _NumexprModel(types.SimpleNamespace):
    """assumed contract of numexpr.evaluate: the expression string evaluated elementwise over the caller's local variables"""

    @staticmethod
    def evaluate(expr):
        frame = sys._getframe(1)
        from pyvc import shim
        npx = shim.NP if sym.active() else np
        env = dict(frame.f_globals)
        env.update(frame.f_locals)
        env.update(exp=npx.exp, cos=npx.cos, sin=npx.sin, sqrt=npx.sqrt)
        return eval(expr, {'__builtins__': {}}, env)


class _MatrixTheory(ScatteringTheory):
    """a theory whose amplitude scattering matrix at (theta, phi) is an opaque deterministic function of the angles and the sphere"""

    def can_handle(self, scatterer):
        return isinstance(scatterer, Sphere)

    def raw_scat_matrs(self, scatterer, pos, medium_wavevec, medium_index):
        npts = pos.shape[1]
        symb = sym.active()
        out = np.empty((npts, 2, 2), dtype=object if symb else complex)
        for t in range(npts):
            args = [pos[1, t], pos[2, t], scatterer.r * medium_wavevec, scatterer.n / medium_index]
            for i in range(2):
                for j in range(2):
                    out[t, i, j] = opaque_complex("S%d%d" % (i, j), args)
        return out


@contextlib.contextmanager
def _lens_quadrature(c, ntheta, nphi):
    saved = (hl.gauss_legendre_pts_wts, hl.pts_wts_for_phi_integrals, getattr(hl, 'ne', None), hl.NUMEXPR_INSTALLED)
    A = (lambda v: np.array(v, dtype=object if c.symbolic else float))
    tp = [c.real("theta%d" % i, sample=(0.05, 0.85)) for i in range(ntheta)]
    tw = [c.real("wtheta%d" % i, pos=True, sample=(0.05, 0.4)) for i in range(ntheta)]
    pp = [c.real("phi%d" % i, sample=(0, 6.2)) for i in range(nphi)]
    pw = [c.real("wphi%d" % i, pos=True, sample=(0.5, 3)) for i in range(nphi)]
    hl.gauss_legendre_pts_wts = lambda a, b, npts=100: (A(tp), A(tw))
    hl.pts_wts_for_phi_integrals = lambda npts: (A(pp), A(pw))
    hl.ne = _NumexprModel()
    hl.NUMEXPR_INSTALLED = True
    try:
        yield
    finally:
        hl.gauss_legendre_pts_wts, hl.pts_wts_for_phi_integrals, ne, hl.NUMEXPR_INSTALLED = saved
        if ne is None:
            if hasattr(hl, 'ne'):
                del hl.ne
        else:
            hl.ne = ne


@contract("C08", "lens_numexpr_equivalence", [TH + "lens:Lens._integrand_prefactor", TH + "lens:Lens._integrand_prll", TH + "lens:Lens._integrand_perp",
                                              TH + "lens:Lens._compute_integrand", TH + "lens:Lens._compute_integral", TH + "lens:Lens.raw_fields",
                                              TH + "lens:Lens._calc_scattering_matrix", TH + "lens:Lens._transform_integral_from_lr_to_xyz"],
          bounded="2 x 2 quadrature points (theta x phi), two detector points", max_paths=40, timeout_ms=60000)
def lens_numexpr_equivalence(c):
    """the lens wrapper returns the same field whether or not the acceleration library is used: the expression strings handed to
    numexpr denote the formulas of the numpy branch (prefactor, parallel and perpendicular integrands), for every position,
    polarization, sphere and wrapped theory"""
    A = (lambda v: np.array(v, dtype=object if c.symbolic else float))
    rho = [c.real("krho0", nonneg=True, sample=(0, 30)), c.real("krho1", nonneg=True, sample=(0, 30))]
    phi = [c.angle("phi_p0"), c.angle("phi_p1")]
    kz = c.real("kz", sample=(-30, 30))
    a, b = c.real("pol_x", sample=(-1, 1)), c.real("pol_y", sample=(-1, 1))
    c.requires(c.not_(c.and_(c.eq(a, 0), c.eq(b, 0))) if c.symbolic else abs(a) + abs(b) > 1e-2)
    sph = Sphere(n=c.real("n", pos=True, sample=(1.3, 1.8)), r=c.real("r", pos=True, sample=(0.2, 1)), center=(0, 0, 0))
    pos = np.array([A(rho), A(phi), A([kz, kz])])
    with _lens_quadrature(c, 2, 2):
        fast = Lens(lens_angle=0.9, theory=_MatrixTheory(), quad_npts_theta=2, quad_npts_phi=2, use_numexpr=True)
        slow = Lens(lens_angle=0.9, theory=_MatrixTheory(), quad_npts_theta=2, quad_npts_phi=2, use_numexpr=False)
        c.ensures("acceleration-flag-respected", fast.use_numexpr is True and slow.use_numexpr is False)
        pol = to_vector((a, b))
        pre_f = c.call(fast._integrand_prefactor, pos[0].reshape(1, 1, 2), pos[1].reshape(1, 1, 2), pos[2].reshape(1, 1, 2))
        pre_s = c.call(slow._integrand_prefactor, pos[0].reshape(1, 1, 2), pos[1].reshape(1, 1, 2), pos[2].reshape(1, 1, 2))
        c.ensures("same-prefactor", c.eq(pre_f, pre_s))
        Ef = c.call(fast.raw_fields, pos.copy(), sph, 1.0, 1.0, pol)
        Es = c.call(slow.raw_fields, pos.copy(), sph, 1.0, 1.0, pol)
    c.ensures("same-field-with-and-without-acceleration", c.eq(Ef, Es))
    c.canary("field-vanishes", c.eq(Es[0][0], 0))


@contract("C08", "zero_aberration_scalar", [TH + "mielensfunctions:AberratedMieLensCalculator._calculate_phase",
                                            TH + "mielensfunctions:AberratedMieLensCalculator._calculate_aberrated_phase",
                                            TH + "mielensfunctions:AberratedMieLensCalculator._pupil_x_squared"])
def zero_aberration_scalar(c):
    """at a generic quadrature node (the phase is computed elementwise over the nodes): a scalar aberration coefficient a adds
    a (cos theta - 1)^2 to the unaberrated phase kz (1 - cos theta); a = 0 adds nothing"""
    a = c.real("a", sample=(-2, 2))
    kz = c.real("kz", sample=(-30, 30))
    with pupil_kernels(c, 1):
        calc = mlf.AberratedMieLensCalculator(spherical_aberration=a, particle_kz=kz, index_ratio=1.2, size_parameter=3.0, lens_angle=0.8,
                                              interpolate_integrals=False)
        got = np.asarray(c.call(calc._calculate_phase)).reshape(-1)[0]
    q = np.asarray(calc._quad_pts).reshape(-1)[0]
    c.ensures("phase-with-scalar-aberration", c.eq(got, kz * (1 - q) + a * (q - 1) ** 2))
    c.ensures("zero-adds-nothing", c.implies(c.eq(a, 0, tol=0), c.eq(got, kz * (1 - q))))
    c.canary("aberration-never-matters", c.eq(got, kz * (1 - q)))


@contract("C08", "lens_integrand_pointwise", [TH + "lens:Lens._integrand_prefactor", TH + "lens:Lens._integrand_prll", TH + "lens:Lens._integrand_perp"])
def lens_integrand_pointwise(c):
    """at a generic (theta node, phi node, detector point) - the integrands are elementwise in all three - the prefactor and the
    parallel / perpendicular integrands computed through the numexpr strings equal those of the numpy branch, and equal the documented
    formula  exp(i k rho sin(theta) cos(phi - phi_p)) exp(i kz (1 - cos theta)) sqrt(cos theta) sin(theta) w_phi w_theta / (2 pi)"""
    A = (lambda v: np.array(v, dtype=object if c.symbolic else float))
    rho, php, kz = c.real("krho", nonneg=True, sample=(0, 30)), c.angle("phi_p"), c.real("kz", sample=(-30, 30))
    pol = c.angle("pol_angle")
    S = [c.complex("S%d" % i) for i in (1, 2, 3, 4)]
    with _lens_quadrature(c, 1, 1):
        fast = Lens(lens_angle=0.9, theory=_MatrixTheory(), quad_npts_theta=1, quad_npts_phi=1, use_numexpr=True)
        slow = Lens(lens_angle=0.9, theory=_MatrixTheory(), quad_npts_theta=1, quad_npts_phi=1, use_numexpr=False)
        args = [A([rho]).reshape(1, 1, 1), A([php]).reshape(1, 1, 1), A([kz]).reshape(1, 1, 1)]
        pf, ps = c.call(fast._integrand_prefactor, *args), c.call(slow._integrand_prefactor, *args)
        Sa = [np.array([s], dtype=object if c.symbolic else complex).reshape(1, 1, 1) for s in S]
        lf, ls = c.call(fast._integrand_prll, pf, pol, *Sa), c.call(slow._integrand_prll, ps, pol, *Sa)
        rf, rs = c.call(fast._integrand_perp, pf, pol, *Sa), c.call(slow._integrand_perp, ps, pol, *Sa)
    th, ph = fast._theta_pts.reshape(-1)[0], fast._phi_pts.reshape(-1)[0]
    wt, wp = fast._theta_wts.reshape(-1)[0], fast._phi_wts.reshape(-1)[0]
    c.requires(c.and_(th > 0, th < 1.5) if c.symbolic else True)
    c.ensures("same-prefactor", c.eq(pf, ps))
    c.ensures("same-parallel-integrand", c.eq(lf, ls))
    c.ensures("same-perpendicular-integrand", c.eq(rf, rs))
    u, v = rho * c.sin(th) * c.cos(ph - php), kz * (1 - c.cos(th))
    want = (c.cos(u) + 1j * c.sin(u)) * (c.cos(v) + 1j * c.sin(v)) * (c.sqrt(c.cos(th)) * c.sin(th) * wp * wt) * 0.5 / c.pi
    c.ensures("prefactor-formula", c.eq(ps.reshape(-1)[0], want))
    cp, sp = c.cos(ph - pol), c.sin(ph - pol)
    S1, S2, S3, S4 = S
    c.ensures("parallel-integrand-formula", c.eq(ls.reshape(-1)[0], ps.reshape(-1)[0] * (cp * (cp * S2 + sp * S3) + sp * (cp * S4 + sp * S1))))
    c.ensures("perpendicular-integrand-formula", c.eq(rs.reshape(-1)[0], ps.reshape(-1)[0] * (sp * (cp * S2 + sp * S3) - cp * (cp * S4 + sp * S1))))
    c.canary("integrands-coincide", c.eq(ls, rs))


@contract("C08", "integral_evaluation_mode", [TH + "mielensfunctions:MieLensCalculator._eval_mielens_i_n"],
          bounded="radial arrays of 1, 2 and 3 points", max_paths=600)
def integral_evaluation_mode(c):
    """the radial pupil integrals are evaluated either directly or through the interpolator, never anything else and never an error:
    interpolate_integrals=True -> interpolated, False -> direct, 'check' (the default) -> interpolated exactly when
    degree * (max krho - min krho) / window < 1.1 * number of points; the result is that evaluation's, unchanged, for both integrals"""
    mode = c.choice("interpolate_integrals", ["check", True, False])
    npts = c.choice("points", [1, 2, 3])
    n = c.choice("integral", [0, 2])
    A = (lambda v: np.array(v, dtype=object if c.symbolic else float))
    kr = [c.real("krho%d" % i, nonneg=True, sample=(0, 200)) for i in range(npts)]
    window = c.real("window", pos=True, sample=(5, 60))
    degree = c.choice("degree", [8, 32])
    calls = []

    class Calc(mlf.MieLensCalculator):
        def __init__(self):
            self.interpolate_integrals = mode
            self.interpolator_window_size = window
            self.interpolator_degree = degree

        def _direct_eval_mielens_i_n(self, krho, n=0):
            calls.append(('direct', n))
            return np.array([opaque_complex("direct_I%d" % n, [v]) for v in np.asarray(krho, dtype=object).reshape(-1)],
                            dtype=object if c.symbolic else complex).reshape(np.shape(krho))

        def _interpolate_and_eval_mielens_i_n(self, krho, n=0):
            calls.append(('interpolated', n))
            return np.array([opaque_complex("interp_I%d" % n, [v]) for v in np.asarray(krho, dtype=object).reshape(-1)],
                            dtype=object if c.symbolic else complex).reshape(np.shape(krho))

    calc = Calc()
    o = c.outcome(calc._eval_mielens_i_n, A(kr), n=n)
    c.ensures("no-unexpected-exception", o.ok, detail=repr(o.exc))
    if not o.ok:
        return
    c.ensures("exactly-one-evaluation-of-the-requested-integral", len(calls) == 1 and calls[0][1] == n)
    spread = c.max(*kr) - c.min(*kr) if npts > 1 else 0
    want_interp = True if mode is True else False if mode is False else c.lt(degree * spread / window, 1.1 * npts, tol=0)
    c.ensures("mode-selects-the-evaluation", c.iff(calls[0][0] == 'interpolated', want_interp))
    expect = [opaque_complex(("interp_I%d" if calls[0][0] == 'interpolated' else "direct_I%d") % n, [v]) for v in kr]
    c.ensures("result-is-that-evaluations", c.eq(o.value, np.array(expect, dtype=object if c.symbolic else complex)))


@contract("C08", "theory_object_reuse", [TH + "mielens:MieLens.raw_fields", TH + "mielens:MieLens._create_calculator",
                                         TH + "mielensfunctions:MieLensCalculator._interpolate_and_eval_mielens_i_n"], native_only=True,
          bounded="native sampling: 10x10 detector, MieLens / AberratedMieLens, interpolation 'check' / on / off, two depths and two spheres per run")
def theory_object_reuse(c):
    """a lens theory object carries nothing over from one calculation to the next: the field computed with an object that has already
    been used - for the same sphere at another depth, or for another sphere - equals the field computed with a fresh object, with
    interpolated and with directly evaluated radial integrals alike (so interpolated = direct cannot depend on call history either)"""
    from holopy.scattering import calc_field
    from holopy.core.metadata import detector_grid
    kind = c.choice("theory", ["MieLens", "AberratedMieLens"])
    interp = c.choice("interpolate_integrals", ["check", True, False])
    lens = c.real("lens_angle", sample=(0.4, 1.1))
    n, r = c.real("n", sample=(1.4, 1.7)), c.real("r", sample=(0.3, 0.8))
    z1, z2 = c.real("z_first", sample=(-8, 12)), c.real("z_second", sample=(-8, 12))
    c.requires(abs(z1 - z2) > 0.5)
    make = (lambda: MieLens(lens_angle=lens, calculator_accuracy_kwargs={'interpolate_integrals': interp}) if kind == "MieLens" else
            AberratedMieLens(spherical_aberration=0.3, lens_angle=lens, calculator_accuracy_kwargs={'interpolate_integrals': interp}))
    det = detector_grid(10, 0.25)
    kw = dict(medium_index=1.33, illum_wavelen=0.66, illum_polarization=(1, 0))
    first, second = Sphere(n=n, r=r, center=(1.2, 1.3, z1)), Sphere(n=n, r=r, center=(1.2, 1.3, z2))
    other = Sphere(n=n + 0.05, r=r * 1.1, center=(1.0, 1.4, z2))
    used = make()
    calc_field(det, first, theory=used, **kw)
    got_same_sphere = calc_field(det, second, theory=used, **kw).values
    got_other = calc_field(det, other, theory=used, **kw).values
    want_same_sphere = calc_field(det, second, theory=make(), **kw).values
    want_other = calc_field(det, other, theory=make(), **kw).values
    close = (lambda a, b: bool(np.allclose(a, b, rtol=1e-11, atol=1e-13)))
    c.ensures("same-sphere-at-another-depth", close(got_same_sphere, want_same_sphere),
              detail="max |used - fresh| = %g" % float(np.abs(got_same_sphere - want_same_sphere).max()))
    c.ensures("another-sphere", close(got_other, want_other), detail="max |used - fresh| = %g" % float(np.abs(got_other - want_other).max()))
    direct = calc_field(det, second, theory=(MieLens(lens_angle=lens, calculator_accuracy_kwargs={'interpolate_integrals': False}) if kind == "MieLens" else
                                             AberratedMieLens(spherical_aberration=0.3, lens_angle=lens,
                                                              calculator_accuracy_kwargs={'interpolate_integrals': False})), **kw).values
    c.ensures("interpolated-agrees-with-direct-to-1e-6", bool(np.allclose(got_same_sphere, direct, rtol=1e-6, atol=1e-8)),
              detail="max |interpolated(used object) - direct| = %g" % float(np.abs(got_same_sphere - direct).max()))


@contract("C08", "interpolated_equals_direct_native", [TH + "mielensfunctions:MieLensCalculator._interpolate_and_eval_mielens_i_n",
                                                       TH + "mielensfunctions:MieLensCalculator._direct_eval_mielens_i_n",
                                                       TH + "mielensfunctions:MieLensCalculator.calculate_scattered_field"], native_only=True,
          bounded="native sampling over the property's own ranges: lens angle 0.1-1.4 rad, k*z in [-150, 300], relative index 1.05-2.5, size parameter "
                  "0.1-50, 150 radial points up to k*rho = 50 / 300 / 1200; agreement demanded to 1e-8 of the largest field component (the unchanged "
                  "interpolator delivers about 1e-10: an approximation-error statement, decided by sampling only)")
def interpolated_equals_direct_native(c):
    """the scattered field does not depend on whether the radial pupil integrals are interpolated or evaluated directly - over the whole
    stated range of lens angles (small acceptance angles included), depths above and below the focus, sizes and indices"""
    rng = np.random.RandomState(c.int("seed", 0, 10 ** 6))
    la = c.real("lens_angle", sample=(0.1, 1.4))
    kz = c.real("particle_kz", sample=(-150, 300))
    m = c.real("index_ratio", sample=(1.05, 2.5))
    x = 10 ** c.real("log10_size_parameter", sample=(-1, 1.69))
    top = c.choice("largest_krho", [50, 300, 1200])
    krho = np.sort(rng.uniform(0, top, size=150))
    phi = rng.uniform(0, 2 * np.pi, size=150)
    kw = dict(particle_kz=kz, index_ratio=m, size_parameter=x, lens_angle=la)
    direct = mlf.MieLensCalculator(interpolate_integrals=False, **kw).calculate_scattered_field(krho, phi)
    interp = mlf.MieLensCalculator(interpolate_integrals=True, **kw).calculate_scattered_field(krho, phi)
    scale = max(np.abs(direct[0]).max(), np.abs(direct[1]).max())
    err = max(np.abs(direct[0] - interp[0]).max(), np.abs(direct[1] - interp[1]).max()) / scale
    c.ensures("field-independent-of-interpolation", bool(err < 1e-8),
              detail="lens_angle %.3f, k*z %.1f, index ratio %.3f, size parameter %.3g: interpolated and direct fields differ by %.2e of the largest "
                     "component" % (la, kz, m, x, err))
