"""C14  Priors are proper, match their samplers, and are closed under arithmetic."""
import math
import operator
import types

import numpy as np

from pyvc.contract import contract
from pyvc import sym, shim
import holopy.core.prior as prior
from holopy.core.prior import Uniform, Gaussian, BoundedGaussian, TransformedPrior, ComplexPrior
from holopy.scattering.errors import ParameterSpecificationError

P = "holopy.core.prior:"
INF = float('inf')

META = {
    'out_of_reach': ["samples follow the declared distribution (a statistical statement about numpy's generators; "
                     "np.random.uniform / normal are assumed dependencies: range of uniform, nothing about normal)"],
    'assumptions': ["scipy.stats.norm.pdf(p, mu, sd) = exp(-(p-mu)^2/(2 sd^2)) / (sd sqrt(2 pi))  (assumed contract on the dependency, "
                    "conformance-tested natively by the cross-check)",
                    "np.random.uniform(a, b, size) returns values in [a, b); np.random.normal returns arbitrary reals",
                    "L-LOG instances: log(exp(a)/b) = a - log(b) for b > 0; log(1/x) (same term on both sides); "
                    "L-STEP-INT / L-GAUSS-INT (Lean) turn 'density * length = 1' and 'the density is the normal density' into 'integrates to 1'",
                    "BoundedGaussian.sample: the rejection loop is unrolled up to 3 redraws (bounded); paths needing more redraws are cut"],
}


class _NormShim:
    """assumed contract of scipy.stats.norm.pdf"""
    class norm:
        @staticmethod
        def pdf(p, mu, sd):
            z = (p - mu) ** 2 / (2 * sd ** 2)
            return shim.NP.exp(-z) / (sd * shim.NP.sqrt(2 * shim.NP.pi))


_STATS = [("holopy.core.prior", "stats", _NormShim)]


def normal_pdf(c, p, mu, sd):
    return c.exp(-((p - mu) ** 2 / (2 * sd ** 2))) / (sd * c.sqrt(2 * c.pi))


# --------------------------------------------------------------------- Uniform
@contract("C14", "uniform_construction", [P + "Uniform.__init__", P + "Uniform.interval"])
def uniform_construction(c):
    """bounds that make no sense are rejected; the default guess is the midpoint and lies in the support; scale_factor > 0"""
    l, u = c.real("lower"), c.real("upper")
    o = c.outcome(Uniform, l, u)
    c.ensures("rejects-iff-lower-ge-upper", c.iff(o.raised(ParameterSpecificationError), l >= u))
    c.ensures("no-other-exception", c.or_(o.ok, o.raised(ParameterSpecificationError)))
    if o.ok:
        p = o.value
        c.ensures("default-guess-midpoint", c.eq(p.guess, (l + u) / 2))
        c.ensures("default-guess-in-support", c.and_(p.guess >= l, p.guess <= u))
        c.ensures("scale-factor-positive", p.scale_factor > 0)
        c.ensures("bounds-stored", c.and_(c.eq(p.lower_bound, l), c.eq(p.upper_bound, u)))
    g = c.real("guess")
    o2 = c.outcome(Uniform, l, u, g)
    c.ensures("guess-outside-rejected", c.iff(o2.raised(ParameterSpecificationError), c.or_(l >= u, g < l, g > u)))
    if o2.ok:
        c.ensures("guess-stored", c.eq(o2.value.guess, g))
        c.ensures("scale-factor-positive-with-guess", o2.value.scale_factor > 0)
    c.canary("accepts-equal-bounds", c.iff(o.raised(ParameterSpecificationError), l > u))


@contract("C14", "uniform_improper", [P + "Uniform.__init__"])
def uniform_improper(c):
    """improper (half-)infinite Uniform: default guess is the finite end (0 if none) and scale_factor > 0"""
    x = c.real("bound")
    lo = c.call(Uniform, x, INF)
    c.ensures("guess-lower-end", c.eq(lo.guess, x))
    hi = c.call(Uniform, -INF, x)
    c.ensures("guess-upper-end", c.eq(hi.guess, x))
    both = c.call(Uniform, -INF, INF)
    c.ensures("guess-zero", c.eq(both.guess, 0))
    c.ensures("scale-factors-positive", c.and_(lo.scale_factor > 0, hi.scale_factor > 0, both.scale_factor > 0))
    p = c.real("p")
    c.ensures("zero-density-outside", c.implies(p < x, c.and_(c.eq(lo.prob(p), 0), c.eq(lo.lnprob(p), -INF))))
    c.ensures("zero-density-outside-upper", c.implies(p > x, c.and_(c.eq(hi.prob(p), 0), c.eq(hi.lnprob(p), -INF))))


@contract("C14", "uniform_improper_lnprob", [P + "Uniform.lnprob", P + "Uniform.prob"])
def uniform_improper_lnprob(c):
    """log-density = log(density) also for an improper Uniform (inside its support)"""
    x = c.real("bound")
    p = c.real("p")
    c.requires(p >= x)
    pr = c.call(Uniform, x, INF)
    dens = c.call(pr.prob, p)
    ln = c.call(pr.lnprob, p)
    c.ensures("lnprob-is-log-prob", c.eq(ln, -INF if dens == 0 else c.log(dens)))


@contract("C14", "uniform_density", [P + "Uniform.prob", P + "Uniform.lnprob", P + "Uniform.interval"])
def uniform_density(c):
    """density 1/(u-l) on [l,u], 0 outside; log-density is its log, -inf outside; total mass 1"""
    l, u = c.real("lower"), c.real("upper")
    c.requires(l < u)
    pr = c.call(Uniform, l, u)
    p = c.real("p")
    inside = c.and_(p >= l, p <= u)
    dens = c.call(pr.prob, p)
    ln = c.call(pr.lnprob, p)
    c.ensures("density-inside", c.implies(inside, c.eq(dens, 1 / (u - l))))
    c.ensures("density-outside", c.implies(c.not_(inside), c.eq(dens, 0)))
    c.ensures("lnprob-is-log-density-inside", c.implies(inside, c.eq(ln, c.log(1 / (u - l)))))
    c.ensures("lnprob-outside", c.implies(c.not_(inside), c.eq(ln, -INF)))
    c.ensures("mass-one", c.eq((1 / (u - l)) * (u - l), 1))
    c.canary("open-support", c.implies(c.eq(p, u), c.eq(dens, 0)))


@contract("C14", "uniform_sample", [P + "Uniform.sample"])
def uniform_sample(c):
    """samples of any requested size lie in [lower, upper)"""
    l, u = c.real("lower"), c.real("upper")
    c.requires(l < u)
    pr = c.call(Uniform, l, u)
    size = c.choice("size", [None, 1, 3])
    if not c.symbolic:
        np.random.seed(c.int("seed", 0, 1000))
    s = c.call(pr.sample, size)
    vals = [s] if size is None else list(s)
    c.ensures("count", len(vals) == (1 if size is None else size))
    c.ensures("in-support", c.and_(*[c.and_(v >= l, v <= u) for v in vals]))


# -------------------------------------------------------------------- Gaussian
@contract("C14", "gaussian", [P + "Gaussian.__init__", P + "Gaussian.lnprob", P + "Gaussian.prob",
                               P + "Gaussian.variance", P + "Gaussian.guess"], patches=_STATS)
def gaussian(c):
    """sd <= 0 rejected; density is the normal density; log-density = log(density); guess = mu; scale_factor > 0"""
    mu, sd = c.real("mu"), c.real("sd")
    o = c.outcome(Gaussian, mu, sd)
    c.ensures("rejects-iff-sd-nonpositive", c.iff(o.raised(ParameterSpecificationError), sd <= 0))
    c.ensures("no-other-exception", c.or_(o.ok, o.raised(ParameterSpecificationError)))
    if not o.ok:
        return
    g = o.value
    p = c.real("p")
    if not c.symbolic:
        c.requires(abs(p - mu) / sd < 30 and 1e-6 < sd < 1e6)
    dens = c.call(g.prob, p)
    ln = c.call(g.lnprob, p)
    spec = normal_pdf(c, p, mu, sd)
    c.ensures("density-is-normal", c.eq(dens, spec))
    a = -((p - mu) ** 2 / (2 * sd ** 2))
    b = sd * c.sqrt(2 * c.pi)
    if c.symbolic:
        c.lemma(c.implies(b > 0, c.log(c.exp(a) / b) == a - c.log(b)))       # Real.log_div, Real.log_exp
    c.ensures("lnprob-is-log-density", c.eq(ln, c.log(spec)))
    c.ensures("guess-is-mean", c.eq(g.guess, mu))
    c.ensures("scale-factor-positive", g.scale_factor > 0)
    c.canary("variance-is-sd", c.eq(ln, -c.log(b) - (p - mu) ** 2 / (2 * sd)))


@contract("C14", "bounded_gaussian", [P + "BoundedGaussian.__init__", P + "BoundedGaussian.lnprob",
                                       P + "BoundedGaussian.prob"], patches=_STATS)
def bounded_gaussian(c):
    """mean outside the bounds / equal bounds rejected; 0 / -inf outside the bounds, Gaussian value inside"""
    mu, sd = c.real("mu"), c.real("sd", pos=True)
    l, u = c.real("lower"), c.real("upper")
    o = c.outcome(BoundedGaussian, mu, sd, l, u)
    c.ensures("rejects-bad-bounds", c.iff(o.raised(ParameterSpecificationError), c.or_(mu < l, mu > u, c.eq(l, u) if c.symbolic else l == u)))
    if not o.ok:
        return
    g = o.value
    p = c.real("p")
    if not c.symbolic:
        c.requires(abs(p - mu) / sd < 30 and 1e-6 < sd < 1e6)
    inside = c.and_(p >= l, p <= u)
    dens, ln = c.call(g.prob, p), c.call(g.lnprob, p)
    c.ensures("zero-outside", c.implies(c.not_(inside), c.and_(c.eq(dens, 0), c.eq(ln, -INF))))
    c.ensures("gaussian-inside", c.implies(inside, c.eq(dens, normal_pdf(c, p, mu, sd))))
    c.ensures("gaussian-lnprob-inside",
              c.implies(inside, c.eq(ln, -c.log(sd * c.sqrt(2 * c.pi)) - (p - mu) ** 2 / (2 * sd ** 2))))
    c.ensures("scale-factor-positive", g.scale_factor > 0)
    # default (infinite) bounds
    g2 = c.call(BoundedGaussian, mu, sd)
    c.ensures("unbounded-default", c.eq(c.call(g2.prob, p), normal_pdf(c, p, mu, sd)))


def _bg_sample(size):
    def body(c):
        mu, sd = c.real("mu"), c.real("sd", pos=True)
        l, u = c.real("lower"), c.real("upper")
        c.requires(c.and_(l <= mu, mu <= u, l < u))
        if not c.symbolic:
            c.requires(u - l > 0.05 * sd)        # keeps the native rejection loop short
            np.random.seed(c.int("seed", 0, 10 ** 6))
        g = c.call(BoundedGaussian, mu, sd, l, u)
        s = c.call(g.sample, size)
        if size is None:
            c.ensures("scalar-when-size-none", np.ndim(s) == 0)
            vals = [s if c.symbolic else float(s)]
        else:
            c.ensures("count", len(s) == size)
            vals = list(s)
        c.ensures("in-support", c.and_(*[c.and_(v >= l, v <= u) for v in vals]))
    body.__doc__ = "BoundedGaussian.sample(size=%r) returns only values inside [lower, upper]" % (size,)
    return body


def _bg_sample_half_infinite(side):
    def body(c):
        mu, sd = c.real("mu"), c.real("sd", pos=True)
        b = c.real("bound")
        size = c.choice("size", [None, 2])
        if side == "lower":
            c.requires(b <= mu)
            lo, hi = b, INF
        else:
            c.requires(b >= mu)
            lo, hi = -INF, b
        if not c.symbolic:
            np.random.seed(c.int("seed", 0, 10 ** 6))
        g = c.call(BoundedGaussian, mu, sd, lo, hi)
        s = c.call(g.sample, size)
        vals = [s if c.symbolic else float(s)] if size is None else list(s)
        c.ensures("in-support", c.and_(*[(v >= b) if side == "lower" else (v <= b) for v in vals]))
    body.__doc__ = "BoundedGaussian with only a %s bound: samples respect that bound" % side
    return body


for _side in ("lower", "upper"):
    contract("C14", "bounded_gaussian_sample_%s_only" % _side, [P + "BoundedGaussian.sample"],
             bounded="rejection loop unrolled up to 2 redraws; sizes None and 2", rng_calls=3,
             max_paths=600)(_bg_sample_half_infinite(_side))


for _sz in (None, 1, 2):
    contract("C14", "bounded_gaussian_sample_%s" % ("none" if _sz is None else _sz),
             [P + "BoundedGaussian.sample", P + "Gaussian.sample"],
             bounded="rejection loop unrolled up to 3 redraws (2 for size 2); draws are arbitrary reals",
             rng_calls=(4 if _sz != 2 else 3), max_paths=1200)(_bg_sample(_sz))


@contract("C14", "gaussian_sample", [P + "Gaussian.sample"])
def gaussian_sample(c):
    """Gaussian.sample draws normal(mu, sd) of the requested size"""
    mu, sd = c.real("mu"), c.real("sd", pos=True)
    g = c.call(Gaussian, mu, sd)
    size = c.choice("size", [None, 2])
    if c.symbolic:
        s = c.call(g.sample, size)
        ev = [e for e in c.events() if e[0] == 'random.normal']
        c.ensures("one-draw-call", len(ev) == 1)
        c.ensures("draw-arguments", c.and_(c.eq(ev[0][1], mu), c.eq(ev[0][2], sd), ev[0][3] == size))
    else:
        np.random.seed(3)
        s = c.call(g.sample, size)
        np.random.seed(3)
        c.ensures("draw-arguments", c.eq(np.asarray(s), np.asarray(np.random.normal(mu, sd, size))))
        c.ensures("one-draw-call", True)
    c.ensures("size", (np.ndim(s) == 0) if size is None else (len(s) == size))


# -------------------------------------------------------------- scale / unscale
@contract("C14", "scale_unscale", [P + "Prior.scale", P + "Prior.unscale"], patches=_STATS)
def scale_unscale(c):
    """scaling and unscaling are inverse for every prior type"""
    kind = c.choice("kind", ["uniform", "uniform-guess", "gaussian", "bounded"])
    a, b = c.real("a"), c.real("b")
    c.requires(a < b)
    if kind == "uniform":
        p = c.call(Uniform, a, b)
    elif kind == "uniform-guess":
        g = c.real("g")
        c.requires(c.and_(g >= a, g <= b))
        p = c.call(Uniform, a, b, g)
    elif kind == "gaussian":
        p = c.call(Gaussian, a, b - a)
    else:
        p = c.call(BoundedGaussian, a, b - a, a, b)
    x = c.real("x")
    if not c.symbolic:
        c.requires(abs(x) < 1e6 and p.scale_factor > 1e-9)
    c.ensures("unscale-scale", c.eq(c.call(p.unscale, c.call(p.scale, x)), x))
    c.ensures("scale-unscale", c.eq(c.call(p.scale, c.call(p.unscale, x)), x))
    c.ensures("scale-is-division", c.eq(c.call(p.scale, x), x / p.scale_factor))


# --------------------------------------------------------------------- algebra
OPS = {
    'add': operator.add, 'radd': lambda p, k: k + p, 'sub': operator.sub, 'rsub': lambda p, k: k - p,
    'mul': operator.mul, 'rmul': lambda p, k: k * p, 'div': operator.truediv, 'rdiv': lambda p, k: k / p,
    'pow': operator.pow, 'rpow': lambda p, k: k ** p,
}


@contract("C14", "algebra_identities", [P + "Prior.__add__", P + "Prior.__mul__", P + "Prior.__radd__",
                                         P + "Prior.__rmul__", P + "Prior.__sub__", P + "Prior.__truediv__"])
def algebra_identities(c):
    """p+0, 0+p, p-0, p*1, 1*p, p/1 return p itself; p*0 and unsupported operand types raise TypeError"""
    l, u = c.real("lower"), c.real("upper")
    c.requires(l < u)
    p = c.call(Uniform, l, u)
    c.ensures("add-zero", c.call(operator.add, p, 0) is p)
    c.ensures("radd-zero", c.call(operator.add, 0, p) is p)
    c.ensures("sub-zero", c.call(operator.sub, p, 0) is p)
    c.ensures("mul-one", c.call(operator.mul, p, 1) is p)
    c.ensures("rmul-one", c.call(operator.mul, 1, p) is p)
    c.ensures("div-one", c.call(operator.truediv, p, 1) is p)
    c.ensures("mul-zero-raises", c.outcome(operator.mul, p, 0).raised(TypeError))
    c.ensures("rmul-zero-raises", c.outcome(operator.mul, 0, p).raised(TypeError))
    c.ensures("add-string-raises", c.outcome(operator.add, p, "a").raised(TypeError))
    c.ensures("mul-string-raises", c.outcome(operator.mul, p, "a").raised(TypeError))
    c.ensures("add-none-raises", c.outcome(operator.add, p, None).raised(TypeError))
    c.ensures("mul-list-raises", c.outcome(operator.mul, p, [1, 2]).raised(TypeError))
    k = c.real("k")
    o = c.outcome(operator.mul, p, k)
    c.ensures("mul-symbolic", c.and_(c.iff(o.raised(TypeError), c.eq(k, 0) if c.symbolic else k == 0),
                                     c.implies(c.eq(k, 1) if c.symbolic else k == 1, o.value is p)))
    o = c.outcome(operator.add, p, k)
    c.ensures("add-symbolic", c.and_(o.ok, c.implies(c.eq(k, 0) if c.symbolic else k == 0, o.value is p)))


def _record(pr):
    """record what the base prior's own sampler returns (both modes)"""
    rec = []
    orig = pr.sample

    def sample(size=None):
        v = orig(size)
        rec.append(v)
        return v
    pr.sample = sample
    return rec


def _guess_of(x):
    return x.guess if isinstance(x, prior.Prior) else x


def _algebra(depth2, op2s=('add', 'rsub', 'mul', 'rdiv', 'neg')):
    def body(c):
        l, u = c.real("l1"), c.real("u1")
        l2, u2 = c.real("l2"), c.real("u2")
        c.requires(c.and_(l < u, l2 < u2))
        p, q = c.call(Uniform, l, u), c.call(Uniform, l2, u2)
        k = c.real("k")
        opname = c.choice("op", sorted(OPS))
        other_kind = c.choice("operand", ["number", "prior"])
        other = k if other_kind == "number" else q
        if opname in ('pow', 'rpow'):
            # keep powers inside the modelled subset: integer exponent / positive base
            if opname == 'pow':
                other = c.choice("exponent", [2, 3, -1]) if other_kind == "number" else other
            if other_kind == "prior" or opname == 'rpow':
                return
        if opname in ('div',) and other_kind == "number":
            c.requires(k != 0)
        if opname in ('mul', 'rmul', 'div', 'rdiv') and other_kind == "number":
            c.requires(k != 0)
        if not c.symbolic:
            c.requires(abs(_guess_of(p)) > 1e-3 and abs(_guess_of(q)) > 1e-3 and (other_kind == "prior" or abs(k) > 1e-3))
        op = OPS[opname]
        # divisions: the divisor's guess must be non-zero
        if opname == 'rdiv':
            c.requires(p.guess != 0)
        if opname == 'div' and other_kind == "prior":
            c.requires(q.guess != 0)
        t = c.call(op, p, other)
        expect = op(_guess_of(p), _guess_of(other))
        c.ensures("guess-commutes", c.eq(_guess_of(t), expect))
        if depth2:
            op2name = c.choice("op2", list(op2s))
            op2 = OPS[op2name] if op2name != 'neg' else (lambda x, _k: -x)
            k2 = c.real("k2")
            if op2name in ('mul', 'rdiv'):
                c.requires(k2 != 0)
            if op2name == 'rdiv':
                c.requires(expect != 0)
            if isinstance(t, prior.Prior):
                t2 = c.call(op2, t, k2)
                if not c.symbolic:
                    c.requires(abs(expect) > 1e-3 and abs(k2) > 1e-3)
                c.ensures("guess-commutes-depth2", c.eq(_guess_of(t2), op2(expect, k2)))
        c.ensures("derived-is-prior", isinstance(t, prior.Prior))
    body.__doc__ = ("arithmetic on priors gives derived priors whose guess is the same operation applied to the base "
                    "guesses (operator expressions of depth %d%s)" % (2 if depth2 else 1, ", outer operator %s" % "/".join(op2s) if depth2 else ""))
    return body


contract("C14", "algebra_guess", [P + "Prior.__add__", P + "Prior.__mul__", P + "Prior.__sub__", P + "Prior.__rsub__",
                                  P + "Prior.__truediv__", P + "Prior.__rtruediv__", P + "Prior.__neg__", P + "Prior.__pow__",
                                  P + "TransformedPrior.guess", P + "TransformedPrior.__init__"],
         bounded="operator expressions of depth 1 over {prior, number} operands, 10 operators enumerated",
         max_paths=400)(_algebra(False))
contract("C14", "algebra_guess_depth2", [P + "TransformedPrior.guess"],
         bounded="operator expressions of depth 2 (outer operator from {+, k-, *, k/, unary -})", max_paths=1900,
         tier='thorough')(_algebra(True))
contract("C14", "algebra_guess_negated", [P + "Prior.__neg__", P + "TransformedPrior.guess", P + "TransformedPrior.__init__"],
         bounded="operator expressions of depth 2 whose outer operator is unary minus; inner operator from the 10 enumerated, operand a "
                 "symbolic number (every value, -1 included) or a second prior", max_paths=500)(_algebra(True, op2s=('neg',)))


@contract("C14", "algebra_samples", [P + "TransformedPrior.sample", P + "Prior.__add__", P + "Prior.__mul__"],
          bounded="operators {+, -, *, /} with a number or a second prior; sizes None and 2")
def algebra_samples(c):
    """samples of a derived prior equal the same operation applied, draw for draw, to the base samples"""
    l, u = c.real("l1"), c.real("u1")
    l2, u2 = c.real("l2"), c.real("u2")
    c.requires(c.and_(l < u, l2 < u2))
    p, q = c.call(Uniform, l, u), c.call(Uniform, l2, u2)
    k = c.real("k")
    c.requires(k != 0)
    opname = c.choice("op", ['add', 'sub', 'mul', 'div', 'rsub'])
    other_kind = c.choice("operand", ["number", "prior"])
    if opname == 'div' and other_kind == 'prior':
        return
    other = k if other_kind == "number" else q
    size = c.choice("size", [None, 2])
    op = OPS[opname]
    t = c.call(op, p, other)
    rec_p, rec_q = _record(p), _record(q)
    if not c.symbolic:
        np.random.seed(c.int("seed", 0, 10 ** 6))
    s = c.call(t.sample, size)
    c.ensures("each-base-sampled-once", len(rec_p) == 1 and len(rec_q) == (1 if other_kind == "prior" else 0))
    base_p = rec_p[0]
    o = rec_q[0] if other_kind == "prior" else k
    if size is None:
        c.ensures("sample-commutes", c.eq(s, op(base_p, o)))
    else:
        c.ensures("sample-shape", len(s) == size)
        c.ensures("sample-commutes", c.and_(*[c.eq(s[i], op(base_p[i], o[i] if other_kind == "prior" else o))
                                               for i in range(size)]))


@contract("C14", "numpy_functions", [P + "Prior.__array_ufunc__", P + "TransformedPrior.guess"],
          bounded="ufuncs sqrt, exp, cos, square, add(p, k), multiply(p, q) enumerated")
def numpy_functions(c):
    """NumPy functions applied to priors give derived priors whose guess is the function of the base guess"""
    l, u = c.real("lower", pos=True), c.real("upper")
    c.requires(l < u)
    p = c.call(Uniform, l, u)
    q = c.call(Uniform, l, u + 1)
    k = c.real("k")
    which = c.choice("ufunc", ["sqrt", "exp", "cos", "square", "add", "multiply"])
    realnp = np
    if which in ("add", "multiply"):
        f = getattr(realnp, which)
        other = k if which == "add" else q
        t = c.call(f, p, other)
        expect = (p.guess + k) if which == "add" else (p.guess * q.guess)
    else:
        f = getattr(realnp, which)
        t = c.call(f, p)
        expect = {'sqrt': c.sqrt, 'exp': c.exp, 'cos': c.cos, 'square': lambda v: v * v}[which](p.guess)
    c.ensures("is-derived-prior", isinstance(t, TransformedPrior))
    c.ensures("guess-commutes", c.eq(t.guess, expect))
    c.ensures("keyword-arguments-rejected", c.outcome(realnp.add, p, 1, dtype=float).raised(TypeError))


@contract("C14", "complex_prior", [P + "ComplexPrior.lnprob", P + "ComplexPrior.prob", P + "ComplexPrior.__init__"],
          patches=_STATS)
def complex_prior(c):
    """ComplexPrior: log-density = sum over its free parts; density = exp(log-density); guess = complex of the guesses"""
    mu, sd = c.real("mu"), c.real("sd", pos=True)
    l, u = c.real("lower"), c.real("upper")
    c.requires(l < u)
    fixed = c.real("fixed")
    re, im = c.real("re"), c.real("im")
    c.requires(c.and_(im >= l, im <= u))
    if not c.symbolic:
        c.requires(abs(re - mu) / sd < 20 and sd > 1e-6)
    g, un = c.call(Gaussian, mu, sd), c.call(Uniform, l, u)
    both = c.call(ComplexPrior, g, un)
    val = (re + 1j * im) if not c.symbolic else sym.SCplx(re.e, im.e)
    c.ensures("sum-of-parts", c.eq(c.call(both.lnprob, val), g.lnprob(re) + un.lnprob(im)))
    c.ensures("prob-is-exp-lnprob", c.eq(c.call(both.prob, val), c.exp(g.lnprob(re) + un.lnprob(im))))
    real_only = c.call(ComplexPrior, g, fixed)
    c.ensures("fixed-imaginary-part-contributes-nothing", c.eq(c.call(real_only.lnprob, val), g.lnprob(re)))
    imag_only = c.call(ComplexPrior, fixed, un)
    c.ensures("fixed-real-part-contributes-nothing", c.eq(c.call(imag_only.lnprob, val), un.lnprob(im)))
    gs = both.guess
    c.ensures("guess", c.and_(c.eq(gs.real, mu), c.eq(gs.imag, (l + u) / 2)))


class _UV:
    def __init__(self, guess, plus, minus):
        self.guess, self.plus, self.minus = guess, plus, minus


@contract("C14", "updated", [P + "updated"], patches=_STATS)
def updated(c):
    """updated(): keeps bounds and name, centres on the new value, sd = max(plus, minus, floor)"""
    l, u = c.real("lower"), c.real("upper")
    g = c.real("guess")
    plus, minus, extra = c.real("plus", pos=True), c.real("minus", pos=True), c.real("extra", nonneg=True)
    c.requires(c.and_(l < u, g >= l, g <= u))
    new = c.call(prior.updated, Uniform(l, u, name='par') if not c.symbolic else c.call(Uniform, l, u, None, 'par'),
                 _UV(g, plus, minus), extra)
    c.ensures("is-bounded-gaussian", isinstance(new, BoundedGaussian))
    c.ensures("bounds-kept", c.and_(c.eq(new.lower_bound, l), c.eq(new.upper_bound, u)))
    c.ensures("name-kept", new.name == 'par')
    c.ensures("centred", c.eq(new.mu, g))
    c.ensures("sd-is-max", c.eq(new.sd, c.max(plus, minus, extra)))
    un = c.call(prior.updated, c.call(Gaussian, g, plus, 'par2'), _UV(g, plus, minus))
    c.ensures("unbounded-stays-gaussian", type(un) is Gaussian and un.name == 'par2')


@contract("C14", "generate_guess", [P + "generate_guess"], bounded="2 parameters, nguess 1 and 3")
def generate_guess(c):
    """generate_guess: shape (nguess, nparameters), each entry guess + scaling*(sample - guess)"""
    l, u = c.real("lower"), c.real("upper")
    c.requires(l < u)
    mu, sd = c.real("mu"), c.real("sd", pos=True)
    scaling = c.real("scaling")
    n = c.choice("nguess", [1, 3])
    pars = [c.call(Uniform, l, u), c.call(Gaussian, mu, sd)]
    recs = [_record(p) for p in pars]
    seed = None if c.symbolic else c.int("seed", 0, 10 ** 6)
    out = c.call(prior.generate_guess, pars, n, scaling, seed)
    draws = [r[0] for r in recs]
    c.ensures("shape", out.shape == (n, 2))
    for j, pr in enumerate(pars):
        for i in range(n):
            c.ensures("formula", c.eq(out[i, j], pr.guess + scaling * (draws[j][i] - pr.guess)))
