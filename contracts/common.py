"""Shared helpers for the scattering contracts: an abstract scattering theory whose kernel is an
opaque (deterministic, pointwise) function of exactly the arguments the real hand-off code gives it."""
import numpy as np

from pyvc import sym
from pyvc.sym import SNum, SCplx, is_sym
from holopy.scattering.theory.scatteringtheory import ScatteringTheory
from holopy.scattering.scatterer import Sphere, Scatterers


def _z(v):
    """z3 real term(s) of a scalar argument"""
    import z3
    if isinstance(v, SCplx):
        return [v.re, v.im]
    if isinstance(v, SNum):
        return [sym._real(v.e)]
    if isinstance(v, complex):
        return [sym._rv(v.real), sym._rv(v.imag)]
    if v is None:
        return [z3.RealVal(-12345)]
    return [sym._real(sym._coerce(v))]


class AbstractPointTheory(ScatteringTheory):
    """A scattering theory whose field at a detector point is an opaque deterministic function of
    (that point's dimensionless coordinates, the scatterer's dimensionless description, the
    polarization) - the assumed contract of the compiled kernels (DESIGN.md 3.3): pointwise and
    history-free.  `coordinates` selects which coordinate system the theory asks for."""

    def __init__(self, coordinates='spherical', label='E', handles=(Sphere,)):
        self.desired_coordinate_system = coordinates
        self.label = label
        self.handles = handles
        self.calls = []

    def can_handle(self, scatterer):
        return isinstance(scatterer, self.handles)

    def _scatterer_args(self, scatterer, medium_wavevec, medium_index):
        out = []
        rs = np.atleast_1d(np.array(scatterer.r, dtype=object))
        ns = np.atleast_1d(np.array(scatterer.n, dtype=object))
        for r in rs:
            out += _z(r * medium_wavevec)              # size parameter
        for n in ns:
            out += _z(n / medium_index)                # relative index
        return out

    def raw_fields(self, pos, scatterer, medium_wavevec, medium_index, illum_polarization):
        self.calls.append(dict(pos=pos, scatterer=scatterer, k=medium_wavevec, n=medium_index, pol=illum_polarization))
        pol = list(illum_polarization.values[:2])
        npts = pos.shape[1]
        if not sym.active():
            # native stand-in: a fixed smooth pointwise function (used only by replays / cross-checks)
            x = np.asarray(medium_wavevec * np.atleast_1d(scatterer.r)[0], dtype=float)
            m = np.atleast_1d(np.array(scatterer.n))[0] / medium_index
            p = np.asarray(pos, dtype=float)
            base = np.exp(1j * (p[0] * 0.37 + p[1] * 1.3 + p[2] * 0.71)) * (x + m)
            return np.array([base * (pol[0] + 0.2 * pol[1]), base * (pol[1] - 0.3 * pol[0]) * 1j, base * 0.1])
        p = sym.cur()
        sargs = self._scatterer_args(scatterer, medium_wavevec, medium_index)
        out = np.empty((3, npts), dtype=object)
        for t in range(npts):
            args = [a for coord in pos[:, t] for a in _z(coord)] + sargs + [a for q in pol for a in _z(q)]
            for comp in range(3):
                re = p.opaque("%s%d_re" % (self.label, comp), args)
                im = p.opaque("%s%d_im" % (self.label, comp), args)
                out[comp, t] = SCplx(re, im)
        return out
