"""C20  Scatterer containment, layers and overlaps match the analytic shapes."""
import numpy as np

from pyvc.contract import contract
from holopy.scattering.scatterer import (Sphere, Spheres, Ellipsoid, Union, Difference, Intersection,
                                         LayeredSphere)
from holopy.scattering.errors import InvalidScatterer, OverlapWarning

S = "holopy.scattering.scatterer."
BASE = [S + "scatterer:Scatterer.in_domain", S + "scatterer:Scatterer.contains",
        S + "scatterer:Indicators.__call__"]

META = {
    'out_of_reach': ["voxelisations converge to the analytic volume (a limit statement about _voxel_coords grids; "
                     "no contract within reach expresses convergence)"],
    'assumptions': ["np.iscomplex is type-based for symbolic values (it only selects the dtype of index_at's result)"],
}


def d2(p, c):
    return sum((p[k] - c[k]) ** 2 for k in range(3))


@contract("C20", "sphere", BASE + [S + "sphere:Sphere.indicators", S + "sphere:Sphere.__init__",
                                    S + "scatterer:Scatterer.index_at"])
def sphere(c):
    """a point is inside a sphere iff |p - c|^2 < r^2 (strict); index_at gives n inside, background outside"""
    r = c.real("r", nonneg=True)
    n = c.real("n")
    bg = c.real("background")
    cen, p = c.vec("c"), c.vec("p")
    s = c.call(Sphere, n=n, r=r, center=cen)
    inside = d2(p, cen) < r * r
    dom = c.call(s.in_domain, p)
    c.ensures("domain-shape", dom.shape == (1,))
    c.ensures("domain", c.iff(dom[0] == 1, inside))
    c.ensures("domain-else-0", c.iff(dom[0] == 0, c.not_(inside)))
    cont = c.call(s.contains, np.array([p, p]))
    c.ensures("contains", c.and_(c.iff(bool(cont[0]), inside), c.iff(bool(cont[1]), inside)))
    idx = c.call(s.index_at, p, bg)
    c.ensures("index", c.eq(idx[0], c.ite(inside, n, bg)))
    c.canary("closed-ball", c.iff(dom[0] == 1, d2(p, cen) <= r * r))


@contract("C20", "layered_sphere", BASE + [S + "sphere:Sphere.indicators", S + "scatterer:Scatterer.index_at"],
          bounded="1-4 layers (the property's own range), each layer count enumerated")
def layered(c):
    """domain = 1 + first layer whose radius contains the point, 0 outside; index of that layer"""
    L = c.choice("layers", [1, 2, 3, 4])
    rs = [c.real("r%d" % i, nonneg=True) for i in range(L)]
    ns = [c.real("n%d" % i) for i in range(L)]
    bg = c.real("background")
    cen, p = c.vec("c"), c.vec("p")
    s = c.call(Sphere, n=ns, r=rs, center=cen)
    dist2 = d2(p, cen)
    dom = c.call(s.in_domain, p)[0]
    idx = c.call(s.index_at, p, bg)[0]
    exp_dom, exp_idx = 0, bg
    for i in reversed(range(L)):
        inside_i = dist2 < rs[i] * rs[i]
        exp_dom = c.ite(inside_i, i + 1, exp_dom)
        exp_idx = c.ite(inside_i, ns[i], exp_idx)
    c.ensures("first-layer-wins", c.eq(dom, exp_dom))
    c.ensures("layer-index", c.eq(idx, exp_idx))
    cont = c.call(s.contains, p)[0]
    c.ensures("contains-iff-any-layer", c.iff(bool(cont), c.or_(*[dist2 < r * r for r in rs])))


@contract("C20", "layered_by_thickness", [S + "sphere:LayeredSphere.r", S + "sphere:LayeredSphere.__init__"] + BASE,
          bounded="1-4 layers enumerated")
def layered_t(c):
    """LayeredSphere: outer radii are the cumulative thicknesses, containment follows"""
    L = c.choice("layers", [1, 2, 3, 4])
    ts = [c.real("t%d" % i, nonneg=True) for i in range(L)]
    ns = [c.real("n%d" % i) for i in range(L)]
    cen, p = c.vec("c"), c.vec("p")
    s = c.call(LayeredSphere, n=ns, t=ts, center=cen)
    r = s.r
    acc = 0
    for i in range(L):
        acc = acc + ts[i]
        c.ensures("cumulative-radius-%d" % i, c.eq(r[i], acc))
    dom = c.call(s.in_domain, p)[0]
    dist2 = d2(p, cen)
    exp_dom, acc = 0, sum(ts)
    radii = [sum(ts[:i + 1]) for i in range(L)]
    for i in reversed(range(L)):
        exp_dom = c.ite(dist2 < radii[i] * radii[i], i + 1, exp_dom)
    c.ensures("domain", c.eq(dom, exp_dom))


@contract("C20", "ellipsoid", BASE + [S + "ellipsoid:Ellipsoid.indicators", S + "ellipsoid:Ellipsoid.__init__"])
def ellipsoid(c):
    """inside iff sum ((p_k - c_k)/r_k)^2 < 1"""
    r = c.vec("r", pos=True)
    cen, p = c.vec("c"), c.vec("p")
    n = c.real("n")
    e = c.call(Ellipsoid, n=n, r=r, center=cen)
    inside = sum(((p[k] - cen[k]) / r[k]) ** 2 for k in range(3)) < 1
    cont = c.call(e.contains, p)
    c.ensures("contains", c.iff(bool(cont[0]), inside))
    b = e.bounds
    c.ensures("bounds", c.implies(inside, c.and_(*[c.and_(b[k][0] <= p[k], p[k] <= b[k][1]) for k in range(3)])))
    c.canary("sphere-of-radius-r0", c.iff(bool(cont[0]), d2(p, cen) < r[0] * r[0]))


def _two_spheres(c):
    n = 1.59
    r1, r2 = c.real("r1", nonneg=True), c.real("r2", nonneg=True)
    c1, c2 = c.vec("a"), c.vec("b")
    return c.call(Sphere, n=n, r=r1, center=c1), c.call(Sphere, n=n, r=r2, center=c2), r1, r2, c1, c2


@contract("C20", "csg", [S + "csg:Union.in_domain", S + "csg:Difference.in_domain", S + "csg:Intersection.in_domain",
                         S + "csg:CsgScatterer.__init__", S + "csg:CsgScatterer.bounds", S + "csg:Difference.bounds"] + BASE)
def csg(c):
    """union / difference / intersection contain a point iff the boolean combination of the members does"""
    s1, s2, r1, r2, c1, c2 = _two_spheres(c)
    p = c.vec("p")
    in1, in2 = d2(p, c1) < r1 * r1, d2(p, c2) < r2 * r2
    kind = c.choice("kind", ["union", "difference", "intersection"])
    cls = {"union": Union, "difference": Difference, "intersection": Intersection}[kind]
    spec = {"union": c.or_(in1, in2), "difference": c.and_(in1, c.not_(in2)), "intersection": c.and_(in1, in2)}[kind]
    obj = c.call(cls, s1, s2)
    cont = c.call(obj.contains, p)
    c.ensures(kind + "-contains", c.iff(bool(cont[0]), spec))
    b = obj.bounds
    c.ensures(kind + "-bounds", c.implies(spec, c.and_(*[c.and_(b[k][0] <= p[k], p[k] <= b[k][1]) for k in range(3)])))


@contract("C20", "sphere_bounds", [S + "scatterer:Scatterer.bounds", S + "sphere:Sphere.indicators"],
          bounded="1-4 layers enumerated")
def sphere_bounds(c):
    """every interior point of a (layered) sphere lies in its bounding box"""
    L = c.choice("layers", [1, 2, 3, 4])
    rs = [c.real("r%d" % i, nonneg=True) for i in range(L)]
    cen, p = c.vec("c"), c.vec("p")
    s = c.call(Sphere, n=[1.5] * L, r=rs if L > 1 else rs[0], center=cen)
    dist2 = d2(p, cen)
    inside = c.or_(*[dist2 < r * r for r in rs])
    b = s.bounds
    c.ensures("bounds", c.implies(inside, c.and_(*[c.and_(b[k][0] <= p[k], p[k] <= b[k][1]) for k in range(3)])))
    c.canary("bounds-tight", c.implies(inside, b[0][0] + rs[0] / 2 <= p[0]))


@contract("C20", "translation", [S + "scatterer:Scatterer.translated", S + "composite:Scatterers.translated"] + BASE)
def translation(c):
    """translating a scatterer translates its containment region (sphere, layered sphere, ellipsoid)"""
    t, p = c.vec("t"), c.vec("p")
    cen = c.vec("c")
    kind = c.choice("shape", ["sphere", "layered", "ellipsoid"])
    as_vector = c.choice("vector_argument", [True, False])
    if kind == "sphere":
        s = c.call(Sphere, n=1.5, r=c.real("r", nonneg=True), center=cen)
    elif kind == "layered":
        s = c.call(Sphere, n=[1.5, 1.4], r=[c.real("r0", nonneg=True), c.real("r1", nonneg=True)], center=cen)
    else:
        s = c.call(Ellipsoid, n=1.5, r=c.vec("r", pos=True), center=cen)
    moved = c.call(s.translated, t) if as_vector else c.call(s.translated, t[0], t[1], t[2])
    before = c.call(s.in_domain, p)[0]
    after = c.call(moved.in_domain, p + t)[0]
    c.ensures("region-translated", c.eq(before, after))
    c.ensures("original-untouched", c.eq(np.array(s.center), cen))
    c.ensures("centre-shifted", c.eq(np.array(moved.center), cen + t))


def _translation_csg(kind):
    cls = {"union": Union, "difference": Difference, "intersection": Intersection}[kind]

    def body(c):
        s1, s2, r1, r2, c1, c2 = _two_spheres(c)
        t, p = c.vec("t"), c.vec("p")
        obj = c.call(cls, s1, s2)
        moved = c.call(obj.translated, t[0], t[1], t[2])
        before = c.call(obj.contains, p)[0]
        after = c.call(moved.contains, p + t)[0]
        c.ensures("region-translated", c.iff(bool(before), bool(after)))
        in1, in2 = d2(p, c1) < r1 * r1, d2(p, c2) < r2 * r2
        spec = {"union": c.or_(in1, in2), "difference": c.and_(in1, c.not_(in2)),
                "intersection": c.and_(in1, in2)}[kind]
        c.ensures("original-untouched", c.iff(bool(c.call(obj.contains, p)[0]), spec))
    body.__doc__ = "translating a %s translates its containment region" % kind
    contract("C20", "translation_" + kind,
             [S + "scatterer:Scatterer.translated", S + "csg:CsgScatterer.__init__",
              S + "csg:%s.in_domain" % cls.__name__], max_paths=200)(body)


for _k in ("union", "difference", "intersection"):
    _translation_csg(_k)


def _members(c, m, layered_first=False):
    rs, cs, sph = [], [], []
    for i in range(m):
        cen = c.vec("c%d_" % i)
        if layered_first and i == 0:
            ra, rb = c.real("r0a", nonneg=True), c.real("r0b", nonneg=True)
            sph.append(c.call(Sphere, n=[1.5, 1.4], r=[ra, rb], center=cen))
            rs.append(c.max(ra, rb))
        else:
            r = c.real("r%d" % i, nonneg=True)
            sph.append(c.call(Sphere, n=1.5, r=r, center=cen))
            rs.append(r)
        cs.append(cen)
    return sph, rs, cs


class _OpaqueOverlaps(list):
    """callee contract of Spheres.overlaps as far as Spheres.__init__ uses it: a list whose
    emptiness is unknown (the exact content is the `overlaps` contract below)"""

    def __bool__(self):
        from pyvc import sym
        return bool(sym.SBool(sym.cur().fresh('overlaps_nonempty', 'bool')))


_STUB_OVERLAPS = [(S + "spherecluster", "Spheres.overlaps", property(lambda self: _OpaqueOverlaps()))]


@contract("C20", "largest_overlap", [S + "spherecluster:Spheres.largest_overlap", "holopy.core.math:cartesian_distance"],
          bounded="1-8 members (the property's own range), member count enumerated; one member may be layered; "
                  "Spheres.__init__ sees Spheres.overlaps through an opaque stub",
          patches=_STUB_OVERLAPS, max_paths=64)
def largest_overlap(c):
    """largest_overlap = max(0, max over pairs of (sum of outer radii - distance))"""
    m = c.choice("members", [1, 2, 3, 4, 5, 6, 7, 8])
    sph, rs, cs = _members(c, m, layered_first=True)
    cl = c.call(Spheres, sph, warn=False)
    got = c.call(cl.largest_overlap)
    exp = 0
    for i in range(m):
        for j in range(i + 1, m):
            exp = c.max(exp, rs[i] + rs[j] - c.sqrt(d2(cs[i], cs[j])))
    c.ensures("max-over-pairs", c.eq(got, exp))
    if m >= 3:
        c.canary("ignores-last-pair", c.eq(got, c.max(0, rs[0] + rs[1] - c.sqrt(d2(cs[0], cs[1])))))


def _overlaps(ms, tier):
    def body(c):
        m = c.choice("members", ms)
        warn = c.choice("warn", [True, False])
        sph, rs, cs = _members(c, m, layered_first=True)
        import warnings
        if c.symbolic:
            cl = c.call(Spheres, sph, warn=warn)
            warned = any(e[0] == 'warn' and isinstance(e[1], OverlapWarning) for e in c.events())
        else:
            with warnings.catch_warnings(record=True) as w:
                warnings.simplefilter('always')
                cl = c.call(Spheres, sph, warn=warn)
            warned = any(isinstance(x.message, OverlapWarning) for x in w)
        got = set(cl.overlaps)
        conds = []
        any_overlap = False
        for i in range(m):
            for j in range(i + 1, m):
                close = c.sqrt(d2(cs[i], cs[j])) < rs[i] + rs[j]
                conds.append(c.iff((i, j) in got, close))
                any_overlap = c.or_(any_overlap, close)
        c.ensures("exact-pair-set", c.and_(True, *conds))
        c.ensures("only-ordered-pairs", all(i < j < m for i, j in got))
        c.ensures("warning-iff-overlap-and-warn", c.iff(warned, c.and_(warn, any_overlap)))
        if m >= 2:
            c.canary("touching-counts-as-overlap", c.iff((0, 1) in got, c.sqrt(d2(cs[0], cs[1])) <= rs[0] + rs[1]))
    body.__doc__ = ("overlaps = exactly the pairs i<j closer than the sum of their outer radii (touching excluded); "
                    "a warning is issued at construction iff there is an overlap and warn is set")
    return body


contract("C20", "overlaps", [S + "spherecluster:Spheres.overlaps", S + "spherecluster:Spheres.__init__",
                             "holopy.core.math:cartesian_distance"],
         bounded="1-3 members enumerated with fully symbolic geometry (2^(m(m-1)/2) paths each); one member may be layered",
         max_paths=400)(_overlaps([1, 2, 3], 'quick'))
contract("C20", "overlaps_4", [S + "spherecluster:Spheres.overlaps", S + "spherecluster:Spheres.__init__"],
         bounded="4 members, fully symbolic geometry (64 branch combinations)", max_paths=600,
         tier='thorough')(_overlaps([4], 'thorough'))


@contract("C20", "overlaps_after_add", [S + "spherecluster:Spheres.overlaps", S + "spherecluster:Spheres.add",
                                        S + "composite:Scatterers.add", S + "spherecluster:Spheres.largest_overlap"],
          bounded="a cluster of 1 or 2 spheres to which one sphere is added", max_paths=200)
def overlaps_after_add(c):
    """the reported pairs are exact after members are added: overlaps / largest_overlap reflect the current members"""
    m = c.choice("initial_members", [1, 2])
    sph, rs, cs = _members(c, m + 1)
    cl = c.call(Spheres, list(sph[:m]), warn=False)
    before = set(cl.overlaps)
    c.call(cl.add, sph[m])
    got = set(cl.overlaps)
    conds = []
    for i in range(m + 1):
        for j in range(i + 1, m + 1):
            conds.append(c.iff((i, j) in got, c.sqrt(d2(cs[i], cs[j])) < rs[i] + rs[j]))
    c.ensures("exact-pair-set-after-add", c.and_(True, *conds))
    exp = 0
    for i in range(m + 1):
        for j in range(i + 1, m + 1):
            exp = c.max(exp, rs[i] + rs[j] - c.sqrt(d2(cs[i], cs[j])))
    c.ensures("largest-overlap-after-add", c.eq(c.call(cl.largest_overlap), exp))


@contract("C20", "rejections", [S + "spherecluster:Spheres.__init__", S + "spherecluster:Spheres.add",
                                S + "sphere:Sphere.__init__", S + "scatterer:CenteredScatterer.__init__"])
def rejections(c):
    """non-sphere members, negative radii and malformed centres are rejected"""
    r = c.real("r")
    cen = c.vec("c")
    o = c.outcome(Sphere, n=1.5, r=r, center=cen)
    c.ensures("negative-radius-rejected", c.iff(o.raised(InvalidScatterer), r < 0))
    r2 = c.real("r2")
    o2 = c.outcome(Sphere, n=[1.5, 1.4], r=[r, r2], center=cen)
    c.ensures("negative-layer-radius-rejected", c.iff(o2.raised(InvalidScatterer), c.or_(r < 0, r2 < 0)))
    rr = c.real("rr", nonneg=True)
    x = c.real("x")
    c.ensures("scalar-centre-rejected", c.outcome(Sphere, n=1.5, r=rr, center=x).raised(InvalidScatterer))
    c.ensures("short-centre-rejected", c.outcome(Sphere, n=1.5, r=rr, center=[x, x]).raised(InvalidScatterer))
    c.ensures("long-centre-rejected", c.outcome(Sphere, n=1.5, r=rr, center=[x, x, x, x]).raised(InvalidScatterer))
    c.ensures("good-centre-accepted", c.outcome(Sphere, n=1.5, r=rr, center=[x, x, x]).ok)
    good = c.call(Sphere, n=1.5, r=rr, center=cen)
    ell = c.call(Ellipsoid, n=1.5, r=(1., 2., 3.), center=cen)
    c.ensures("non-sphere-member-rejected", c.outcome(Spheres, [good, ell]).raised(InvalidScatterer))
    cl = c.call(Spheres, [good], warn=False)
    c.ensures("add-non-sphere-rejected", c.outcome(cl.add, ell).raised(InvalidScatterer))
    c.ensures("add-sphere-accepted", c.outcome(cl.add, good).ok)


_WARN_CHILD = r'''
import sys, json, warnings
spec = json.loads(sys.argv[1])
from holopy.scattering.scatterer import Sphere, Spheres
from holopy.scattering.errors import OverlapWarning
seen = []
warnings.showwarning = lambda msg, cat, *a, **k: seen.append(cat.__name__)
made = 0
for radii, centres, warn in spec:          # one source location for every construction, as in a fitting loop
    cl = Spheres([Sphere(n=1.5, r=r, center=tuple(x)) for r, x in zip(radii, centres)], warn=warn)
    made += 1
print(json.dumps({"made": made, "overlap_warnings": seen.count("OverlapWarning"), "other": [s for s in seen if s != "OverlapWarning"]}))
'''


@contract("C20", "warning_every_construction", [S + "spherecluster:Spheres.__init__", "holopy.scattering.errors:OverlapWarning"], native_only=True, native_runs=(12, 60),
          bounded="native sampling in a fresh interpreter with Python's default warning filters: 1-5 clusters of 2-3 spheres built from one source "
                  "line out of two distinct geometries (so identical clusters recur), overlapping or separate, warn on or off")
def warning_every_construction(c):
    """with the interpreter's own (default) warning filters, every construction of an overlapping cluster with warn set issues an
    OverlapWarning - not only the first one from a given source line - and no other construction does"""
    import subprocess, sys, os, json
    rng = np.random.RandomState(c.int("seed", 0, 10 ** 6))
    k = c.int("constructions", 1, 5)
    pool = []
    for _ in range(2):                                             # two distinct clusters; a loop rebuilds the very same ones
        m = int(rng.randint(2, 4))
        radii = [float(x) for x in rng.uniform(0.3, 1.0, size=m)]
        if rng.rand() < 0.75:                                      # overlapping: second sphere inside the reach of the first
            centres = [[0., 0., 0.], [0., 0., 0.8 * (radii[0] + radii[1])]] + [[10. * (i + 1), 0., 0.] for i in range(m - 2)]
            over = True
        else:
            centres = [[10. * i, 0., 0.] for i in range(m)]
            over = False
        pool.append((radii, centres, over))
    spec, expect = [], 0
    for _ in range(k):
        radii, centres, over = pool[int(rng.rand() < 0.3)]
        warn = bool(rng.rand() < 0.85)
        spec.append([radii, centres, warn])
        expect += int(over and warn)
    env = {k_: v for k_, v in os.environ.items() if k_ != 'PYTHONWARNINGS'}
    env['PYTHONPATH'] = os.pathsep.join(p for p in sys.path if p)
    p = subprocess.run([sys.executable, '-c', _WARN_CHILD, json.dumps(spec)], env=env, capture_output=True, text=True, timeout=300)
    c.ensures("child-ran", p.returncode == 0, detail=p.stderr[-300:])
    if p.returncode == 0:
        got = json.loads(p.stdout.strip().splitlines()[-1])
        c.ensures("one-warning-per-overlapping-construction", got["overlap_warnings"] == expect,
                  detail="%d clusters built from one source line, %d of them overlapping with warn set: %d OverlapWarning(s) reached "
                         "warnings.showwarning under the default filters" % (k, expect, got["overlap_warnings"]))
