#!/bin/bash
# tools/run_all.sh [quick|thorough] [--write-baseline] : every claimed check in turn; prints one summary line per property
HERE="$(cd "$(dirname "$0")/.." && pwd)"
TIER=${1:-quick}; EXTRA=$2
RC=0
for id in $(/venv/bin/python -c "import json;print(' '.join(c['property_id'] for c in json.load(open('$HERE/MANIFEST.json'))['checks']))" 2>/dev/null); do
  out=$($HERE/check $id --tier $TIER $EXTRA 2>&1 | grep -v '^WARNING'); rc=${PIPESTATUS[0]}
  echo "$out" | grep -E "^C[0-9]+ tier|VIOLATION|KNOWN-FINDING|UNDECIDED|BROKEN" | cut -c1-260
  echo "   -> $id exit=$rc"
  [ $rc -ne 0 ] && RC=1
done
exit $RC
