#!/bin/bash
# tools/try_seed.sh <PROP> <seed dir containing patch.diff demo.py notes.md> <seed-id>
# Works in a scratch git worktree of /repo (created here, removed at exit):
#  1. the demo passes without / fails with the patch, and the pinned suite still passes with it
#  2. the property's check is run against the patched tree
#     MODE=scratch (default): VERIF_REPO=<worktree> /verif/check ...      (/repo untouched; used while developing)
#     MODE=repo:              git -C /repo apply; /verif/check ...; git -C /repo checkout -- .   (the official way)
PROP=$1; SRC=$2; SID=$3; MODE=${MODE:-scratch}
WT=/tmp/wt-$PROP-eval-$$
git -C /repo worktree add -q --detach $WT HEAD || exit 9
OUT=$(mktemp -d /tmp/holopy-seedout.XXXXXX)
cleanup() { git -C /repo worktree remove --force $WT 2>/dev/null; [ "$MODE" = "repo" ] && git -C /repo checkout -q -- . ; rm -rf "$OUT"; }
trap cleanup EXIT
mkdir -p /verif/seeded/$SID
cp $SRC/patch.diff /verif/seeded/$SID/patch.diff
# the demonstrations written by the sub-agents pin their own worktree path; make that check path-independent
sed -E -e "s#^assert (holopy|hp)\.__file__\.startswith\(.*#pass  \# (path pin removed: run with PYTHONPATH=<worktree of /repo>)#" $SRC/demo.py > /verif/seeded/$SID/demo.py
[ -f $SRC/notes.md ] && cp $SRC/notes.md /verif/seeded/$SID/notes.md
mkdir -p $WT/seeded_out/x; cp /verif/seeded/$SID/demo.py $WT/seeded_out/x/demo.py
( cd $WT && PYTHONPATH=$WT timeout 900 /venv/bin/python seeded_out/x/demo.py >/dev/null 2>&1 ); CLEAN=$?
( cd $WT && git apply $SRC/patch.diff ) || { echo "PATCH DOES NOT APPLY"; exit 8; }
( cd $WT && PYTHONPATH=$WT timeout 900 /venv/bin/python seeded_out/x/demo.py >/dev/null 2>&1 ); BROKEN=$?
echo "demo: clean exit=$CLEAN, patched exit=$BROKEN"
J=$WT/junit.xml
( cd $WT && /venv/bin/python -m pytest -q -p no:cacheprovider --timeout=900 --continue-on-collection-errors --junitxml=$J >/dev/null 2>&1 )
SUITE=$(/venv/bin/python - $J <<'PY'
import json, sys, xml.etree.ElementTree as ET
base = set(json.load(open('/root/.vp/BASELINE.json'))['stable_pass'])
passed = set()
for tc in ET.parse(sys.argv[1]).getroot().iter('testcase'):
    if not any(ch.tag in ('failure', 'error', 'skipped') for ch in tc):
        passed.add("%s::%s" % (tc.get('classname'), tc.get('name')))
print("%d/%d" % (len(base & passed), len(base)))
PY
)
echo "pinned suite with patch: $SUITE"
if [ "$MODE" = "repo" ]; then
  git -C /repo apply $SRC/patch.diff
  VERIF_OUT=$OUT timeout 3000 /verif/check $PROP > $OUT/check.log 2>&1; RC=$?
  git -C /repo checkout -q -- .
  HOW="git -C /repo apply patch.diff; /verif/check $PROP; git -C /repo checkout -- ."
else
  VERIF_REPO=$WT VERIF_OUT=$OUT timeout 3000 /verif/check $PROP > $OUT/check.log 2>&1; RC=$?
  HOW="scratch worktree of /repo HEAD with patch.diff applied; VERIF_REPO=<worktree> /verif/check $PROP"
fi
grep -v '^WARNING' $OUT/check.log | cut -c1-260 | head -12
echo "check exit=$RC"
VIOL=$(grep -c '^VIOLATION' $OUT/check.log)
/venv/bin/python - <<PY
import json
json.dump({"property": "$PROP", "seed": "$SID", "demo_exit_clean": $CLEAN, "demo_exit_patched": $BROKEN, "pinned_suite_with_patch": "$SUITE",
           "check_cmd": "$HOW", "check_exit": $RC, "violation_lines": $VIOL, "detected": $RC == 1,
           "first_violations": [l.strip()[:300] for l in open("$OUT/check.log") if l.startswith(("VIOLATION", "  obligation", "UNDECIDED", "BROKEN"))][:8]},
          open("/verif/seeded/$SID/meta.json", "w"), indent=1)
PY
