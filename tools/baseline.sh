#!/bin/bash
# runs the repository's pinned test command (guard off) and compares with BASELINE.json's stable_pass list
OUT=$(mktemp /tmp/holopy-junit.XXXXXX.xml)
trap 'rm -f "$OUT"' EXIT
cd /repo && env -u HOLOPY_VERIF /venv/bin/python -m pytest -ra -q -p no:cacheprovider --timeout=900 --continue-on-collection-errors --junitxml="$OUT" >/dev/null 2>&1
/venv/bin/python - "$OUT" <<'PY'
import json, sys, xml.etree.ElementTree as ET
base = set(json.load(open('/root/.vp/BASELINE.json'))['stable_pass'])
passed = set()
for tc in ET.parse(sys.argv[1]).getroot().iter('testcase'):
    if not any(ch.tag in ('failure', 'error', 'skipped') for ch in tc):
        passed.add("%s::%s" % (tc.get('classname'), tc.get('name')))
missing = sorted(base - passed)
print("baseline: %d/%d pinned tests pass; %d additional tests pass" % (len(base) - len(missing), len(base), len(passed - base)))
for m in missing[:20]:
    print("  NOT PASSING:", m)
sys.exit(1 if missing else 0)
PY
