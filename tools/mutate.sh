#!/bin/bash
# tools/mutate.sh <ID> <relative file> <sed expression> : run a check against a scratch copy of /repo with one edit
set -e
ID=$1; F=$2; EXPR=$3
S=$(mktemp -d /tmp/holopy-mut.XXXXXX)
trap 'rm -rf "$S"' EXIT
cp -r /repo/holopy "$S/holopy"
sed -i -e "$EXPR" "$S/holopy/$F"
diff -u /repo/holopy/$F "$S/holopy/$F" | grep '^[-+]' | grep -v '^[-+][-+]' || { echo "NO CHANGE"; exit 9; }
mkdir -p "$S/out"
set +e
VERIF_REPO="$S" VERIF_OUT="$S/out" /verif/check $ID ${TIER:+--tier $TIER} 2>&1 | grep -v '^WARNING'
echo "exit=${PIPESTATUS[0]}"
