#!/bin/bash
# /verif/check selftest [PROP ...] : every seeded regression under /verif/seeded must make its property's check
# report a VIOLATION (exit 1); every harmless edit under /verif/harmless must leave it at exit 0.
# SELFTEST_ONLY=harmless|seeded restricts the run.
# Works on scratch git worktrees of /repo (removed afterwards); /repo itself is never touched.
HERE="$(cd "$(dirname "$0")/.." && pwd)"
FILTER="$*"
FAIL=0
run_one() {   # <prop> <patch> <expected exit> <label>
  local PROP=$1 PATCH=$2 WANT=$3 LABEL=$4
  local WT=/tmp/holopy-selftest-$$-$RANDOM
  git -C /repo worktree add -q --detach $WT HEAD || return 9
  local OUT=$(mktemp -d /tmp/holopy-selftest-out.XXXXXX)
  ( cd $WT && git apply "$PATCH" ) || { echo "SELFTEST $LABEL: patch does not apply"; FAIL=1; }
  VERIF_REPO=$WT VERIF_OUT=$OUT timeout 3000 $HERE/check $PROP > $OUT/log 2>&1; local RC=$?
  if [ "$RC" = "$WANT" ]; then echo "SELFTEST $LABEL: ok (exit $RC)"; else echo "SELFTEST $LABEL: UNEXPECTED exit $RC (wanted $WANT)"; grep -v '^WARNING' $OUT/log | head -5; FAIL=1; fi
  git -C /repo worktree remove --force $WT; rm -rf $OUT
}
for d in $HERE/seeded/*/; do
  [ "$SELFTEST_ONLY" = "harmless" ] && break
  id=$(basename $d); prop=${id%%-*}
  [ -n "$FILTER" ] && ! echo " $FILTER " | grep -q " $prop " && continue
  # a seed recorded as NOT detected (meta.json "detected": false; reasons in DESIGN.md section 8) is expected to stay at exit 0
  want=1; grep -q '"detected": false' $d/meta.json 2>/dev/null && want=0
  run_one $prop $d/patch.diff $want "seeded/$id$([ $want = 0 ] && echo ' (recorded miss)')"
done
for p in $HERE/harmless/*.diff; do
  [ "$SELFTEST_ONLY" = "seeded" ] && break
  [ -e "$p" ] || continue
  base=$(basename $p .diff); prop=${base%%-*}
  [ -n "$FILTER" ] && ! echo " $FILTER " | grep -q " $prop " && continue
  run_one $prop $p 0 "harmless/$base"
done
exit $FAIL
