#!/venv/bin/python
"""regenerates /verif/MANIFEST.json from the table below (claimed properties) - keeps not_applicable current"""
import json, os
HERE = os.path.dirname(os.path.dirname(os.path.abspath(__file__)))
TECH = ("contract-based deductive verification: sidecar pre/postconditions on the real functions, path-complete symbolic "
        "execution of the real function objects, per-path VCs discharged by z3 (nlsat / cvc5 fallback), counter-models replayed natively")
CLAIMED = {
 'C14': ("Construction checks, densities / log-densities / supports, unit mass, sampler support (incl. the rejection loop, bounded "
         "unrolling), scale/unscale and the operator algebra are postconditions on the real prior classes, discharged by z3 for all real parameters.",
         "statistical agreement of samplers is out of reach; scipy.stats.norm.pdf and np.random are assumed contracts; exp/log via L-EXP/L-LOG instances; "
         "operator expressions and the rejection loop are bounded (reported as bounded, not proved); improper-Uniform lnprob is a known finding (D7)"),
 'C17': ("ifft(fft(a)) = a is proved for every image shape through the roll algebra of the shifts the real code applies (trace of the real np.fft calls, "
         "VC over symbolic side lengths), and element by element with the exact DFT on small shapes; the transfer function's formula, |G|<=1, group law, "
         "inverse and cascade are proved at a generic frequency for all real d, lambda; propagate's wiring (values, coordinates, metadata, name, lists, "
         "linearity, composition) is proved on small shapes with symbolic pixels.",
         "numpy.fft is an assumed dependency (exact DFT for sides 1,2,3,4,6); energy bound relies on Parseval (assumed); small-shape contracts are bounded"),
 'C19': ("Every clause listed in DESIGN.md section 5/C19 is a postcondition on the real functions of holopy/core/math.py and the composite scatterers "
         "(imported from the working tree and executed on symbolic reals); each path's verification condition is discharged by z3 over the reals for all inputs.",
         "floats are mathematical reals; sqrt/sin/cos/arctan2 via lemma schemas L-SQRT/L-TRIG/L-ATAN2; numpy elementwise independence; member counts of "
         "composites enumerated (bounded); pyvc engine trusted (canaries, CPython cross-check, seeded faults)"),
 'C20': ("Containment, layer, index, bounds, translation, overlap and rejection clauses are postconditions on the real scatterer classes, proved for all "
         "real-valued geometries by z3 (NRA); member/layer counts are enumerated within the property's own ranges and reported as bounded.",
         "voxelisation convergence is out of reach; collections enumerated up to the stated member counts (bounded, not counted as proved); that every overlapping construction warns under the interpreter's default (once-per-location) filters is decided only by sampled native runs in a fresh interpreter (bounded); floats are mathematical reals"),
}
NA = {
 'C10': "every clause is about values returned by (or a STOP inside) Mishchenko's Fortran T-matrix code, which is not built and cannot be built in this "
        "sandbox; no contract on Python code can express or decide it (DESIGN.md section 7)",
}
def main():
    extra = json.load(open(os.path.join(HERE, 'tools', 'claimed_extra.json'))) if os.path.exists(os.path.join(HERE, 'tools', 'claimed_extra.json')) else {}
    claimed = dict(CLAIMED); claimed.update({k: tuple(v) for k, v in extra.items()})
    props = [json.loads(l) for l in open(os.path.join(HERE, 'properties.jsonl'))]
    checks = []
    for pid in sorted(claimed):
        text, note = claimed[pid]
        checks.append({
            "property_id": pid, "quick_cmd": "./check %s --tier quick" % pid, "thorough_cmd": "./check %s --tier thorough" % pid,
            "evidence_file": "/verif/evidence/%s.json" % pid, "replay_cmd_template": "./check %s --replay {path}" % pid, "engine": "pyvc",
            "level_claimed": {"category": "proof", "text": text, "design_ref": "DESIGN.md section 5, %s" % pid},
            "level_note": note, "technique": TECH})
    na = []
    for p in props:
        if p['id'] in claimed:
            continue
        na.append({"property_id": p['id'], "reason": NA.get(p['id'], "check not built yet in this round (planned, see DESIGN.md section 5)")})
    m = {"version": 1, "setup_cmd": "./setup.sh",
         "hooks": {"guard": "HOLOPY_VERIF",
                   "enable": "no source hooks: contracts are sidecar files under /verif/contracts and /repo is imported unmodified; the checks export HOLOPY_VERIF=1 only for uniformity",
                   "baseline_off_cmd": "/verif/tools/baseline.sh", "source_commits": [], "add_only": True},
         "engines": [{"name": "pyvc", "path": "/verif/pyvc", "serves_properties": sorted(claimed),
                      "kind_free_text": "contract verifier for Python/numpy: symbolic execution of the real function objects with SMT-discharged verification conditions (z3 5.1, cvc5 fallback), native replay of counter-models"}],
         "checks": checks, "not_applicable": sorted(na, key=lambda d: d['property_id']),
         "notes": "Genuine defects repaired in /repo as 'fix:' commits, and open known findings, are listed in /verif/known_findings.json."}
    json.dump(m, open(os.path.join(HERE, 'MANIFEST.json'), 'w'), indent=1)
    print("claimed:", sorted(claimed), "not applicable:", [d['property_id'] for d in m['not_applicable']])
main()
