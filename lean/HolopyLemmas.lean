/-
Lemma schemas used as axioms / conditional instances by the pyvc encodings
(DESIGN.md 2.3, 3.1), stated against Mathlib's real numbers.
-/
import Mathlib.Analysis.SpecialFunctions.Trigonometric.Angle
import Mathlib.Analysis.SpecialFunctions.Log.Basic
import Mathlib.Analysis.SpecialFunctions.Sqrt
import Mathlib.Analysis.Real.Pi.Bounds
import Mathlib.Analysis.SpecialFunctions.Gaussian.GaussianIntegral
import Mathlib.Algebra.BigOperators.Group.Finset.Basic

open Real

namespace Holopy

-- L-SQRT: s = sqrt a  is characterised by  s >= 0 and s*s = a  (for a >= 0)
theorem L_SQRT (a : ℝ) (h : 0 ≤ a) : 0 ≤ Real.sqrt a ∧ Real.sqrt a * Real.sqrt a = a :=
  ⟨Real.sqrt_nonneg a, Real.mul_self_sqrt h⟩

theorem L_SQRT_unique (a s : ℝ) (hs : 0 ≤ s) (h : s * s = a) : s = Real.sqrt a := by
  rw [← h, Real.sqrt_mul_self hs]

-- L-TRIG
theorem L_TRIG_pythagoras (x : ℝ) : cos x * cos x + sin x * sin x = 1 := by
  have h := Real.cos_sq_add_sin_sq x
  nlinarith [h]

theorem L_TRIG_cos_add (x y : ℝ) : cos (x + y) = cos x * cos y - sin x * sin y := Real.cos_add x y
theorem L_TRIG_sin_add (x y : ℝ) : sin (x + y) = sin x * cos y + cos x * sin y := Real.sin_add x y
theorem L_TRIG_cos_neg (x : ℝ) : cos (-x) = cos x := Real.cos_neg x
theorem L_TRIG_sin_neg (x : ℝ) : sin (-x) = -sin x := Real.sin_neg x
theorem L_TRIG_cos_period (x : ℝ) (k : ℤ) : cos (x + k * (2 * π)) = cos x := Real.cos_add_int_mul_two_pi x k
theorem L_TRIG_sin_period (x : ℝ) (k : ℤ) : sin (x + k * (2 * π)) = sin x := Real.sin_add_int_mul_two_pi x k
theorem L_TRIG_cos_two (x : ℝ) : cos (2 * x) = cos x * cos x - sin x * sin x := by
  rw [Real.cos_two_mul, ← L_TRIG_pythagoras x]; ring
theorem L_TRIG_sin_two (x : ℝ) : sin (2 * x) = 2 * sin x * cos x := Real.sin_two_mul x
theorem L_TRIG_sin_pos (x : ℝ) (h0 : 0 < x) (h1 : x < π) : 0 < sin x := Real.sin_pos_of_pos_of_lt_pi h0 h1
theorem L_TRIG_pi_half : cos (π / 2) = 0 ∧ sin (π / 2) = 1 := ⟨Real.cos_pi_div_two, Real.sin_pi_div_two⟩
theorem L_PI_bounds : (3.1415926535897 : ℝ) < π ∧ π < 3.1415926535898 := by
  constructor
  · have := Real.pi_gt_d20; linarith
  · have := Real.pi_lt_d20; linarith

-- L-ATAN2 (injectivity of (cos, sin) modulo a turn)
theorem L_ANGLE_INJ (a b : ℝ) (hc : cos a = cos b) (hs : sin a = sin b) : ∃ k : ℤ, a - b = 2 * π * k := by
  have h : (a : Real.Angle) = (b : Real.Angle) := by
    apply Real.Angle.cos_sin_inj
    · simpa using hc
    · simpa using hs
  exact Real.Angle.angle_eq_iff_two_pi_dvd_sub.mp h

-- L-EXP / L-LOG
theorem L_EXP_add (a b : ℝ) : exp (a + b) = exp a * exp b := Real.exp_add a b
theorem L_EXP_pos (a : ℝ) : 0 < exp a := Real.exp_pos a
theorem L_EXP_zero : exp (0 : ℝ) = 1 := Real.exp_zero
theorem L_EXP_mono (a b : ℝ) (h : a < b) : exp a < exp b := Real.exp_lt_exp.mpr h
theorem L_EXP_tangent (a : ℝ) : a + 1 ≤ exp a := Real.add_one_le_exp a
theorem L_LOG_exp (a : ℝ) : log (exp a) = a := Real.log_exp a
theorem L_EXP_log (a : ℝ) (h : 0 < a) : exp (log a) = a := Real.exp_log h
theorem L_LOG_mul (a b : ℝ) (ha : 0 < a) (hb : 0 < b) : log (a * b) = log a + log b :=
  Real.log_mul ha.ne' hb.ne'
theorem L_LOG_one : log (1 : ℝ) = 0 := Real.log_one
theorem L_LOG_div_exp (a b : ℝ) (hb : 0 < b) : log (exp a / b) = a - log b := by
  rw [Real.log_div (Real.exp_pos a).ne' hb.ne', Real.log_exp]
theorem L_LOG_mono (a b : ℝ) (ha : 0 < a) (h : a < b) : log a < log b := Real.log_lt_log ha h

-- L-ROLL: cyclic shifts compose by adding offsets; fftshift twice is the identity only for even n
theorem L_ROLL_ifftshift (n : ℤ) : (n / 2 + -(n / 2)) % n = 0 := by simp
theorem L_ROLL_even (m : ℤ) : (2 * m / 2 + 2 * m / 2) % (2 * m) = 0 := by
  have h : 2 * m / 2 = m := by omega
  rw [h]; have : m + m = 2 * m := by ring
  rw [this]; exact Int.emod_self
theorem L_ROLL_odd_counterexample : ((3 : ℤ) / 2 + 3 / 2) % 3 ≠ 0 := by decide

-- L-SUM: linearity and constants (sum normal form)
theorem L_SUM_LIN (n : ℕ) (c : ℝ) (f : ℕ → ℝ) :
    (Finset.range n).sum (fun i => c * f i) = c * (Finset.range n).sum f := by
  rw [Finset.mul_sum]
theorem L_SUM_ADD (n : ℕ) (f g : ℕ → ℝ) :
    (Finset.range n).sum (fun i => f i + g i) = (Finset.range n).sum f + (Finset.range n).sum g :=
  Finset.sum_add_distrib
theorem L_SUM_CONST (n : ℕ) (c : ℝ) : (Finset.range n).sum (fun _ => c) = n * c := by
  simp [Finset.sum_const, Finset.card_range]

-- L-GAUSS-INT: the Gaussian integral (normalisation of the normal density)
theorem L_GAUSS_INT (b : ℝ) : ∫ x : ℝ, Real.exp (-b * x ^ 2) = Real.sqrt (π / b) := integral_gaussian b

end Holopy
